"""Witness search / replay on the real code (DESIGN.md section 6). The verdict is always the verifier's."""
import json
import os
import time

VERIF = os.path.dirname(os.path.dirname(os.path.abspath(__file__)))
WORK = os.environ.get('VERIF_WORK') or os.path.join(VERIF, 'work')


def make_replay(pid, unit, failure, seed):
    """Write the replay file for a failed obligation; return (path, witness_found)."""
    d = os.path.join(WORK, 'replay')
    os.makedirs(d, exist_ok=True)
    safe = ''.join(c if c.isalnum() or c in '._-' else '_' for c in failure['obligation'])[:120]
    path = os.path.join(d, f'{pid}-{safe}.json')
    rec = {'property': pid, 'unit': unit, 'obligation': failure['obligation'], 'kind': failure['kind'],
           'source': failure['source'], 'verifier_output': failure['rendered'], 'labels': failure['labels'],
           'witness': None}
    found = False
    try:
        from driver import witness
        w = witness.search(pid, unit, failure, seed)
        if w:
            rec['witness'] = w
            found = True
    except Exception as e:  # witness search only decorates the verdict
        rec['witness_search_error'] = f'{type(e).__name__}: {e}'
    with open(path, 'w', encoding='utf-8') as f:
        json.dump(rec, f, indent=1)
    return path, found


def make_standin_replay(pid, unit, reasons, seed):
    """Bounded stand-in for a unit the verifier could not take: search the real code with the oracles that speak for `pid`."""
    d = os.path.join(WORK, 'replay')
    os.makedirs(d, exist_ok=True)
    path = os.path.join(d, f'{pid}-{unit}.bounded-stand-in.json')
    rec = {'property': pid, 'unit': unit, 'obligation': f'{pid}.{unit}.bounded-stand-in', 'kind': 'bounded stand-in (not a proof obligation)',
           'source': None, 'decided_by': 'bounded search on the real code; the verifier could not take the changed function(s): ' + ' | '.join(reasons)[:1500],
           'bound': 'the finite alphabets / histories of driver/witness.py (DESIGN.md section 6)', 'verifier_output': '\n'.join(reasons), 'labels': [], 'witness': None}
    found = False
    try:
        from driver import witness
        w = witness.search_standin(pid, unit)
        if w:
            rec['witness'] = w
            found = True
    except Exception as e:
        rec['witness_search_error'] = f'{type(e).__name__}: {e}'
    if found:
        with open(path, 'w', encoding='utf-8') as f:
            json.dump(rec, f, indent=1)
    return path, found


def expected_shared_file(types):
    """The file C05 demands for a set of types sharing one file: notice, blank line, every type's own chunk (what exporting it
    alone writes after the notice) exactly once, in name order."""
    from driver import witness
    chunks = {}
    note = None
    for t in types:
        o = witness.run_history([['export_all', t]])
        f = next((v for k, v in o.get('files', {}).items() if k.endswith('shared.ts')), None)
        if f is None:
            return None
        head, body = f.split('\n\n', 1)
        note = head
        chunks[t] = body.strip('\n')
    return note + '\n' + ''.join('\n' + chunks[t] + '\n' for t in sorted(types))


def known_finding_lines(pid, kf, results):
    """Replay the witness of every listed finding for this property on the real code; it is printed as KNOWN-FINDING while it
    still fails (exit code unaffected). Nothing is ever added to the file at run time."""
    from driver import witness
    lines = []
    for f in kf.get('findings', []):
        if pid not in f.get('properties', []):
            continue
        w = f['witness']
        if w.get('kind') == 'op':
            try:
                o = witness.batch([{'op': w['op']}])[0]
                case = next((c for c in o.get('cases', []) if c.get('case') == w['case']), None)
                still = case is not None and not case.get('matches', True)
            except Exception as e:
                lines.append(f"KNOWN-FINDING: property={pid} {f['id']} (witness could not be replayed: {type(e).__name__}) {f['what']}")
                continue
            if still:
                lines.append(f"KNOWN-FINDING: property={pid} {f['id']} {f['what']}")
            else:
                lines.append(f"NOTE: property={pid} known finding {f['id']} no longer reproduces on this tree (stale entry in known_findings.json)")
            continue
        try:
            got = witness.run_history(w['steps'])
            actual = got.get('files', {}).get(w['file'])
            want = expected_shared_file(w['types'])
            still = (actual != want)
        except Exception as e:   # replay unavailable: say so, do not alarm
            lines.append(f"KNOWN-FINDING: property={pid} {f['id']} (witness could not be replayed: {type(e).__name__}) {f['what']}")
            continue
        if still:
            lines.append(f"KNOWN-FINDING: property={pid} {f['id']} {f['what']}")
        else:
            lines.append(f"NOTE: property={pid} known finding {f['id']} no longer reproduces on this tree (stale entry in known_findings.json)")
    return lines


def thorough_extras(pid, units, seed):
    """Thorough tier: conformance smoke test of the trusted std contract library against the real std (seeded by VERIF_SEED).
    A mismatch refutes an ASSUMPTION of the proofs: the run is then undecided, not a violation of the property."""
    from driver import witness
    out = {'report': {}, 'undecided': [], 'violations': []}
    try:
        r = witness.batch([{'op': 'conformance', 'seed': int(seed) + 1, 'n': 20000}])[0]
        out['report']['std_contract_conformance'] = r
        if r.get('mismatches'):
            out['undecided'].append('trusted std contract refuted by the real std: ' + json.dumps(r['first_mismatches'][:2])[:400])
    except Exception as e:
        out['report']['std_contract_conformance'] = {'error': f'{type(e).__name__}: {e}'}
    # bounded cross-check of the proofs' trusted base against the real code: the inputs and histories of the witness search are
    # run on the unchanged code behind the contracts; the property-level oracles must agree everywhere. A disagreement means the
    # real code violates the property on a concrete input although every obligation was discharged (an unsound rewrite, a wrong
    # std contract, or a defect in code outside the contracts): reported with its replay file.
    cross = {}
    from driver import witness as _w
    done = {}
    for unit in units:
        f = _w.SEARCHERS.get(unit)
        if not f or pid not in _w.SPEAKS_FOR.get(f.__name__, ()):
            cross[unit] = 'no oracle for this unit / property'
            continue
        if f.__name__ in done:
            cross[unit] = done[f.__name__] + f' (same search as unit {[u for u in cross if cross[u] == done[f.__name__]][0]})' if False else done[f.__name__]
            continue
        try:
            path, found = make_standin_replay(pid, unit, ['thorough tier: cross-check of the discharged contracts against the real code'], seed)
            cross[unit] = 'disagreement: ' + path if found else f'no disagreement ({f.__name__})'
            if found:
                out['violations'].append(f'VIOLATION property={pid} replay={path}')
        except Exception as e:
            cross[unit] = f'not run ({type(e).__name__}: {e})'
        done[f.__name__] = cross[unit]
    out['report']['bounded_cross_check'] = {'bound': 'finite alphabets / histories of driver/witness.py (labelled bounded, not counted as proved)', 'units': cross}
    return out


def replay_file(pid, path):
    rec = json.load(open(path))
    print(json.dumps({k: rec[k] for k in ('property', 'obligation', 'kind', 'source', 'witness')}, indent=1))
    if rec.get('witness'):
        from driver import witness
        return witness.rerun(rec)
    print('no concrete input recorded; verifier output follows')
    print(rec.get('verifier_output', ''))
    return 1
