"""Witness search / replay on the real code (DESIGN.md section 6). The verdict is always the verifier's."""
import json
import os
import time

VERIF = os.path.dirname(os.path.dirname(os.path.abspath(__file__)))
WORK = os.path.join(VERIF, 'work')


def make_replay(pid, unit, failure, seed):
    """Write the replay file for a failed obligation; return (path, witness_found)."""
    d = os.path.join(WORK, 'replay')
    os.makedirs(d, exist_ok=True)
    safe = ''.join(c if c.isalnum() or c in '._-' else '_' for c in failure['obligation'])[:120]
    path = os.path.join(d, f'{pid}-{safe}.json')
    rec = {'property': pid, 'unit': unit, 'obligation': failure['obligation'], 'kind': failure['kind'],
           'source': failure['source'], 'verifier_output': failure['rendered'], 'labels': failure['labels'],
           'witness': None}
    found = False
    try:
        from driver import witness
        w = witness.search(pid, unit, failure, seed)
        if w:
            rec['witness'] = w
            found = True
    except Exception as e:  # witness search only decorates the verdict
        rec['witness_search_error'] = f'{type(e).__name__}: {e}'
    with open(path, 'w', encoding='utf-8') as f:
        json.dump(rec, f, indent=1)
    return path, found


def known_finding_lines(pid, kf, results):
    return []


def thorough_extras(pid, units, seed):
    return {}


def replay_file(pid, path):
    rec = json.load(open(path))
    print(json.dumps({k: rec[k] for k in ('property', 'obligation', 'kind', 'source', 'witness')}, indent=1))
    if rec.get('witness'):
        from driver import witness
        return witness.rerun(rec)
    print('no concrete input recorded; verifier output follows')
    print(rec.get('verifier_output', ''))
    return 1
