"""Native build of the replay program: real ts-rs runtime (with --cfg ts_rs_verif hooks) + derived macro library."""
import glob
import os
import re
import shutil
import subprocess

VERIF = os.path.dirname(os.path.dirname(os.path.abspath(__file__)))
REPO = os.environ.get('VERIF_REPO', '/repo')
WORK = os.environ.get('VERIF_WORK') or os.path.join(VERIF, 'work')

API = '''
// ---- appended by driver/natives.py: public doors for the replay program (not part of /repo) ----
pub mod verif_api {
    pub use crate::attr::Inflection;
    pub fn derive(input: proc_macro2::TokenStream) -> syn::Result<proc_macro2::TokenStream> { crate::entry(input) }
    pub fn raw_name_to_ts_field(s: String) -> String { crate::utils::raw_name_to_ts_field(s) }
    pub fn parse_docs(attrs: &[syn::Attribute]) -> syn::Result<String> { crate::utils::parse_docs(attrs) }
    pub fn to_ts_ident(i: &proc_macro2::Ident) -> String { crate::utils::to_ts_ident(i) }
    pub fn inflect(i: Inflection, field: bool, s: &str) -> String { __INFLECT__ }
}
'''


def gen_macrolib():
    d = os.path.join(WORK, 'macrolib')
    os.makedirs(d, exist_ok=True)
    src = open(os.path.join(REPO, 'macros/src/lib.rs'), encoding='utf-8').read()
    src = src.replace('#![deny(unused)]', '#![allow(unused)]')
    mdir = os.path.join(REPO, 'macros/src')

    def modrepl(m):
        name = m.group(2)
        raw = name[2:] if name.startswith('r#') else name
        for cand in (f'{mdir}/{raw}.rs', f'{mdir}/{raw}/mod.rs'):
            if os.path.exists(cand):
                return f'{m.group(1)}#[path = "{cand}"]\n{m.group(1)}mod {name};'
        return m.group(0)
    src = re.sub(r'(?m)^(\s*)mod\s+([A-Za-z_#][A-Za-z0-9_#]*)\s*;', modrepl, src)
    src = src.replace('proc_macro::TokenStream', 'proc_macro2::TokenStream')
    src = re.sub(r'syn::parse\s*::<', 'syn::parse2::<', src)
    src = re.sub(r'syn::parse\(', 'syn::parse2(', src)
    src = re.sub(r'(?m)^\s*#\[proc_macro_derive\([^\]]*\)\]\s*$', '', src)
    attr_mod = open(os.path.join(mdir, 'attr/mod.rs'), encoding='utf-8').read()
    if 'fn apply_to_field' in attr_mod and 'fn apply_to_variant' in attr_mod:
        infl = 'if field { i.apply_to_field(s) } else { i.apply_to_variant(s) }'
    else:
        infl = 'let _ = field; i.apply(s)'
    src += API.replace('__INFLECT__', infl)
    new = src
    p = os.path.join(d, 'lib.rs')
    if not os.path.exists(p) or open(p, encoding='utf-8').read() != new:
        open(p, 'w', encoding='utf-8').write(new)
    toml = open(os.path.join(VERIF, 'macrolib/Cargo.toml.in')).read()
    pt = os.path.join(d, 'Cargo.toml')
    if not os.path.exists(pt) or open(pt).read() != toml:
        open(pt, 'w').write(toml)
    return d


def serde_case_path():
    lock = open(os.path.join(REPO, 'Cargo.lock'), encoding='utf-8').read()
    m = re.search(r'name = "serde_derive"\nversion = "([^"]+)"', lock)
    hits = glob.glob(os.path.expanduser(f'~/.cargo/registry/src/*/serde_derive-{m.group(1)}/src/internals/case.rs'))
    return hits[0]


class _build_lock:
    """Checks may run side by side: the crates built on demand (macrolib, replay, probe) are generated and built by one process at a time."""
    def __enter__(self):
        import fcntl
        os.makedirs(WORK, exist_ok=True)
        self.f = open(os.path.join(WORK, '.build.lock'), 'w')
        fcntl.flock(self.f, fcntl.LOCK_EX)

    def __exit__(self, *a):
        import fcntl
        fcntl.flock(self.f, fcntl.LOCK_UN)
        self.f.close()


def build_replay(features=()):
    """Build (incrementally) and return the replay binary path. Raises RuntimeError on build failure."""
    with _build_lock():
        return _build_replay(tuple(features))


def _build_replay(features=()):
    gen_macrolib()
    rdir = os.path.join(VERIF, 'replay')
    if REPO != '/repo' or WORK != os.path.join(VERIF, 'work'):
        # development runs against another checkout / work directory: a copy of the replay crate pointing there
        rdir2 = os.path.join(WORK, 'replay-crate')
        os.makedirs(os.path.join(rdir2, 'src'), exist_ok=True)
        for rel in ['build.rs', 'Cargo.lock'] + ['src/' + f for f in os.listdir(os.path.join(rdir, 'src'))]:
            a, b = os.path.join(rdir, rel), os.path.join(rdir2, rel)
            if os.path.exists(a) and (not os.path.exists(b) or open(a, 'rb').read() != open(b, 'rb').read()):
                shutil.copy(a, b)
        toml = open(os.path.join(rdir, 'Cargo.toml')).read().replace('"/repo/ts-rs"', f'"{REPO}/ts-rs"').replace('"../work/macrolib"', f'"{WORK}/macrolib"')
        pt = os.path.join(rdir2, 'Cargo.toml')
        if not os.path.exists(pt) or open(pt).read() != toml:
            open(pt, 'w').write(toml)
        rdir = rdir2
    lock = os.path.join(rdir, 'Cargo.lock')
    if not os.path.exists(lock):
        shutil.copy(os.path.join(REPO, 'Cargo.lock'), lock)
    env = dict(os.environ)
    env['CARGO_NET_OFFLINE'] = 'true'
    # a feature configuration has its own target directory (the binary of the default build is never replaced by it)
    env['CARGO_TARGET_DIR'] = os.path.join(WORK, 'replay-target' + ''.join('-' + f for f in features))
    env['RUSTFLAGS'] = (env.get('RUSTFLAGS', '') + ' --cfg ts_rs_verif').strip()
    env['VERIF_SERDE_CASE'] = serde_case_path()
    cmd = ['cargo', 'build', '--offline', '--quiet', '--manifest-path', os.path.join(rdir, 'Cargo.toml')]
    if features:
        cmd += ['--features', ','.join(features)]
    p = subprocess.run(cmd, env=env, capture_output=True, text=True)
    if p.returncode != 0:
        if 'no-fragile-witnesses' not in features:
            # some of the really derived witness types are chosen to be awkward (a doc comment with lone braces, ..): a change under
            # which the expansion of one of THEM no longer compiles must not take every other oracle of the replay program with it
            try:
                return _build_replay(tuple(features) + ('no-fragile-witnesses',))
            except RuntimeError:
                pass
        raise RuntimeError('replay build failed:\n' + p.stderr[-3000:])
    return os.path.join(env['CARGO_TARGET_DIR'], 'debug', 'replay')


def build_probe():
    """Build the compile probe (replay/probe: valid items whose expansion has to compile). Returns (ok, error_text, errors)."""
    with _build_lock():
        return _build_probe()


def _build_probe():
    pdir = os.path.join(VERIF, 'replay', 'probe')
    if REPO != '/repo' or WORK != os.path.join(VERIF, 'work'):
        p2 = os.path.join(WORK, 'probe-crate')
        os.makedirs(os.path.join(p2, 'src'), exist_ok=True)
        for f in os.listdir(os.path.join(pdir, 'src')):
            a, b = os.path.join(pdir, 'src', f), os.path.join(p2, 'src', f)
            if not os.path.exists(b) or open(a, 'rb').read() != open(b, 'rb').read():
                shutil.copy(a, b)
        open(os.path.join(p2, 'Cargo.toml'), 'w').write(open(os.path.join(pdir, 'Cargo.toml')).read().replace('"/repo/ts-rs"', f'"{REPO}/ts-rs"'))
        pdir = p2
    lock = os.path.join(pdir, 'Cargo.lock')
    if not os.path.exists(lock):
        shutil.copy(os.path.join(REPO, 'Cargo.lock'), lock)
    env = dict(os.environ)
    env['CARGO_NET_OFFLINE'] = 'true'
    env['CARGO_TARGET_DIR'] = os.path.join(WORK, 'probe-target')
    p = subprocess.run(['cargo', 'build', '--offline', '--quiet', '--message-format=short', '--manifest-path', os.path.join(pdir, 'Cargo.toml')],
                       env=env, capture_output=True, text=True)
    errs = []
    if p.returncode != 0:
        # name the item / grid cell each compiler error belongs to
        src = {}
        for ln in p.stderr.splitlines():
            m = re.match(r'(src/\w+\.rs):(\d+):\d+: (error.*)', ln)
            if not m:
                if ln.startswith('error') and 'could not compile' not in ln:
                    errs.append(ln)
                continue
            f, line, msg = m.group(1), int(m.group(2)), m.group(3)
            if f not in src:
                try:
                    src[f] = open(os.path.join(pdir, f), encoding='utf-8').read().split('\n')
                except OSError:
                    src[f] = []
            cell = next((src[f][i].split('cell:')[1].strip() for i in range(min(line, len(src[f])) - 1, -1, -1) if src[f][i].startswith('// cell:')), None)
            item = cell or (src[f][line - 1].strip()[:120] if 0 < line <= len(src[f]) else '?')
            errs.append(f'{f}:{line} [{item}] {msg}')
    return p.returncode == 0, '\n'.join(p.stderr.splitlines()[-60:]) if p.returncode else '', errs[:12]
