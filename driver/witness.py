"""Concrete-input search on the REAL code for a failed obligation (decorates the verifier's verdict)."""
import itertools
import json
import re
import subprocess

from driver import natives

RULES = {'Lower': 'lowercase', 'Upper': 'UPPERCASE', 'Camel': 'camelCase', 'Snake': 'snake_case', 'Pascal': 'PascalCase',
         'ScreamingSnake': 'SCREAMING_SNAKE_CASE', 'Kebab': 'kebab-case', 'ScreamingKebab': 'SCREAMING-KEBAB-CASE'}


def batch(reqs, features=()):
    exe = natives.build_replay(features)
    inp = '\n'.join(json.dumps(r) for r in reqs) + '\n'
    p = subprocess.run([exe], input=inp, capture_output=True, text=True, timeout=600)
    outs = [json.loads(l) for l in p.stdout.splitlines() if l.strip()]
    return outs


def strings(alphabet, maxlen):
    for n in range(0, maxlen + 1):
        for t in itertools.product(alphabet, repeat=n):
            yield ''.join(t)


def search_inflection(failure):
    name = failure['obligation']
    if 'call-site' in name or 'from_variant' in name:
        # call-site obligations: really derived types, property names of the binding vs the keys serde_json writes
        o = batch([{'op': 'binding_keys'}])[0]
        for c in o.get('cases', []):
            if not c.get('agree', True):
                return {'request': {'op': 'binding_keys'}, 'result': c}
        return None
    only = failure.get('only_for')
    if only in ('C09', 'C04'):
        o = batch([{'op': 'binding_keys'}])[0]
        for c in o.get('cases', []):
            if not c.get('agree', True):
                return {'request': {'op': 'binding_keys'}, 'result': c}
    if only == 'C04':
        return None
    parts = name.split('.')
    rules = list(RULES)
    poss = ['field', 'variant']
    if len(parts) >= 3 and parts[1] in poss:
        poss = [parts[1]]
        if parts[2] in RULES:
            rules = [parts[2]]
    cands = ['', '_', '__', 'a', 'A', 'aB', 'fooBar', 'Foo_Bar', 'foo_bar', 'FooBar', 'É', 'Éa', 'ß', 'a1', '_a', 'a_', 'a__b', 'r#type']
    cands += [s for s in strings(['a', 'B', '_', '1', 'É'], 4)]
    reqs = [{'op': 'inflection', 'rule': RULES[r], 'pos': p, 's': s} for r in rules for p in poss for s in cands]
    outs = batch(reqs)
    for rq, o in zip(reqs, outs):
        if not o.get('agree', True):
            if only == 'C16' and not o.get('panic'):
                continue    # a wrong name is C09's business; only a panic speaks for C16
            return {'request': rq, 'result': o}
    return None


PATH_WORDS = ['.', '..', 'a', 'b.ts', 'x.ts.ts', '.h.ts', '.g', 'c.d']


def _rel_paths(maxdepth):
    for n in range(1, maxdepth + 1):
        for t in itertools.product(PATH_WORDS, repeat=n):
            yield '/'.join(t)


def search_paths(failure):
    ob = failure['obligation']
    reqs = []
    if 'import_path' in ob or 'diff_paths' in ob or 'C08' in ob:
        files = [p for p in _rel_paths(3) if not p.endswith('.') and not p.endswith('..')]
        files = files[:60]
        for f in files:
            for i in files:
                reqs.append({'op': 'import_path', 'from': 'bindings/' + f, 'import': 'bindings/' + i})
        reqs = reqs[:4000]
        # components that differ only in letter case, or where one is a prefix of the other, are different directories
        near = ['a/f.ts', 'A/f.ts', 'a/F.ts', 'é/f.ts', 'É/f.ts', 'ab/f.ts', 'a/b/f.ts', 'A/b/f.ts', 'a/B/f.ts', 'a /f.ts', 'f.ts', 'F.ts', 'api.events', 'api.requests', 'api.ts', 'v1.2', 'x.ats', 'a/x.d.ts']
        reqs += [{'op': 'import_path', 'from': 'bindings/' + f, 'import': 'bindings/' + i} for f in near for i in near]
    ups = ['../' * k + 'x.ts' for k in range(0, 8)]
    reqs += [{'op': 'absolute', 'path': p} for p in ups + list(_rel_paths(3))]
    reqs += [{'op': 'absolute', 'path': '/' + p} for p in ['..', 'a/../..', 'a/../../b', '../a', 'a/..', 'a/./../b', '.', 'a/b/../../..', 'a/b/../../../c']]
    outs = batch(reqs)
    for rq, o in zip(reqs, outs):
        if not o.get('agree', True):
            return {'request': rq, 'result': o}
    return None


def run_history(steps, env_dir=None, features=()):
    import tempfile, shutil, os
    exe = natives.build_replay(features)
    d = tempfile.mkdtemp(prefix='vxh')
    try:
        req = {'op': 'export_history', 'root': d + '/w', 'env_dir': env_dir, 'steps': steps, 'collect': '.'}
        p = subprocess.run([exe, json.dumps(req)], capture_output=True, text=True, timeout=120)
        out = json.loads(p.stdout) if p.stdout.strip() else {'error': p.stderr[-500:]}
    finally:
        shutil.rmtree(d, ignore_errors=True)
    # normalise file keys (the collector walks from `.`)
    if 'files' in out:
        out['files'] = {os.path.normpath(k): v for k, v in out['files'].items()}
    return out


def _hist_subsearches():
    """(properties the sub-search can speak for, thunk returning a witness or None)."""
    subs = []
    state = {}

    def want():
        if 'want' not in state:
            state['want'] = run_history([['export_all_to', 'A', 'bindings'], ['export_all_to', 'B', 'bindings']]).get('files', {})
        return state['want']

    def mixed():
        kinds = [('export',), ('export_all',), ('export_all_to', './bindings'), ('export_all_to', 'bindings/../bindings/')]
        for k1 in kinds:
            for k2 in kinds:
                for order in (['A', 'B'], ['B', 'A']):
                    steps = [[k1[0], order[0]] + list(k1[1:]), [k2[0], order[1]] + list(k2[1:])]
                    got = run_history(steps)
                    if got.get('files') != want() or any(r != 'ok' for r in got.get('results', [])):
                        return {'request': {'op': 'export_history', 'steps': steps}, 'result': {'files': got.get('files'), 'results': got.get('results'), 'expected_files': want(), 'agree': False}, 'kind': 'history'}
    subs.append((('C04', 'C05', 'C06'), mixed))

    def envdir():
        # the export directory spelled with a `..` segment (TS_RS_EXPORT_DIR), entry points mixed: still one file, both declarations
        for k1 in (('export',), ('export_all',)):
            for k2 in (('export',), ('export_all',)):
                for order in (['A', 'B'], ['B', 'A']):
                    steps = [[k1[0], order[0]], [k2[0], order[1]]]
                    got = run_history(steps, env_dir='x/../bindings')
                    if got.get('files') != want() or any(r != 'ok' for r in got.get('results', [])):
                        return {'request': {'op': 'export_history', 'steps': steps, 'env_dir': 'x/../bindings'}, 'result': {'files': got.get('files'), 'results': got.get('results'), 'expected_files': want(), 'agree': False}, 'kind': 'history'}
    subs.append((('C04', 'C05', 'C06'), envdir))

    def stale():
        # a file left by an earlier run (longer than what is written now, with a declaration that no longer exists) is replaced, not patched
        st = (want().get('bindings/shared.ts') or '') + '\nexport type Gone = { a_long_field_name_to_make_the_old_file_longer: string, another_one: number, };\n'
        for order in (['A', 'B'], ['B', 'A']):
            steps = [['write', 'bindings/shared.ts', st]] + [['export_all', t] for t in order]
            got = run_history(steps)
            if got.get('files') != want():
                return {'request': {'op': 'export_history', 'steps': steps}, 'result': {'files': got.get('files'), 'results': got.get('results'), 'expected_files': want(), 'agree': False,
                        'note': 'the first export of a process starts the file afresh'}, 'kind': 'history'}
    subs.append((('C04', 'C05', 'C06', 'C13', 'C15'), stale))

    def cwd_change():
        # the working directory changes between two exports: what is written afterwards is what a fresh process started in the new
        # directory writes (relative export directories and import paths are resolved against the directory of the moment)
        for first, second in ((['export_all', 'A'], ['export_all', 'C']), (['export', 'C'], ['export_all', 'D']), (['export_all', 'W1'], ['export_all', 'W2'])):
            a = run_history([first]).get('files', {})
            b = run_history([['chdir', 'inner'], second]).get('files', {})
            steps = [first, ['chdir', 'inner'], second]
            got = run_history(steps)
            exp = dict(a); exp.update(b)
            if got.get('files') != exp:
                return {'request': {'op': 'export_history', 'steps': steps}, 'result': {'files': got.get('files'), 'results': got.get('results'), 'expected_files': exp, 'agree': False,
                        'note': 'expected_files = the files of the first export alone plus the files a fresh process writes after the same chdir'}, 'kind': 'history'}
    subs.append((('C06', 'C08', 'C11'), cwd_change))

    def deps():
        # types with dependencies: every order of the same calls must leave the same directory (C06), in particular
        # export(T) before export_all(T) must not stop the dependencies from being exported
        for h in ([['export', 'C'], ['export_all', 'C']], [['export', 'D'], ['export_all', 'D']], [['export', 'A'], ['export_all', 'C']],
                  [['export_all_to', 'C', 'bindings'], ['export_all', 'D']], [['export', 'C'], ['export_all', 'D']], [['export_all', 'W1'], ['export_all', 'W2']], [['export', 'W2'], ['export', 'W1']]):
            a = run_history(h)
            b = run_history(list(reversed(h)))
            if a.get('files') != b.get('files'):
                return {'request': {'op': 'export_history', 'steps': h}, 'result': {'files': a.get('files'), 'results': a.get('results'),
                        'expected_files': b.get('files'), 'agree': False, 'note': 'expected_files = same calls in reverse order'}, 'kind': 'history'}
    subs.append((('C05', 'C06', 'C11', 'C13'), deps))

    def import_lines():
        # the import block of a file: one line per other file, names ascending and separated by `, `, specifier relative to the importing file
        for root, f, lines in (('W2', 'bindings/views.ts', ['import type { P1, P3 } from "./deps";']),
                               ('C', 'bindings/C.ts', ['import type { A, B } from "./shared";']),
                               ('D', 'bindings/nested/dir/D.ts', ['import type { C } from "../../C";']),
                               (['CA', 'CB'], 'bindings/client/types.ts', ['import type { P1 } from "../deps";', 'import type { RF } from "../replies from server/reply";']),
                               (['CB', 'CA'], 'bindings/client/types.ts', ['import type { P1 } from "../deps";', 'import type { RF } from "../replies from server/reply";'])):
            roots = root if isinstance(root, list) else [root]
            # each history runs in three fresh processes: an order that depends on a per-process hash seed shows up as a difference
            for _rep in range(3):
                got = run_history([['export_all', r_] for r_ in roots])
                txt = got.get('files', {}).get(f)
                have = [l for l in (txt or '').split('\n') if l.startswith('import ')]
                if txt is None or have != lines:
                    break
            if txt is None or have != lines:
                return {'request': {'op': 'export_history', 'steps': [['export_all', r_] for r_ in roots]}, 'result': {'files': got.get('files'), 'results': got.get('results'),
                        'expected_import_lines': {f: lines}, 'agree': False}, 'kind': 'history-imports', 'file': f, 'lines': lines}
    subs.append((('C04', 'C08', 'C13'), import_lines))

    def explicit_dir():
        # export_all_to writes the root AND everything reachable into the given directory; TS_RS_EXPORT_DIR plays no part
        base = run_history([['export_all', 'D']])
        exp = {('out2/' + k[len('bindings/'):] if k.startswith('bindings/') else k): v for k, v in base.get('files', {}).items()}
        for env in (None, 'elsewhere'):
            got = run_history([['export_all_to', 'D', 'out2']], env_dir=env)
            if got.get('files') != exp or any(r != 'ok' for r in got.get('results', [])):
                return {'request': {'op': 'export_history', 'steps': [['export_all_to', 'D', 'out2']], 'env_dir': env}, 'result': {'files': got.get('files'), 'results': got.get('results'),
                        'expected_files': exp, 'agree': False, 'note': 'expected_files = what export_all(D) writes under ./bindings, moved to out2/'}, 'kind': 'history'}
        # and export_all follows TS_RS_EXPORT_DIR
        exp2 = {('elsewhere/' + k[len('bindings/'):] if k.startswith('bindings/') else k): v for k, v in base.get('files', {}).items()}
        got = run_history([['export_all', 'D']], env_dir='elsewhere')
        if got.get('files') != exp2:
            return {'request': {'op': 'export_history', 'steps': [['export_all', 'D']], 'env_dir': 'elsewhere'}, 'result': {'files': got.get('files'), 'results': got.get('results'),
                    'expected_files': exp2, 'agree': False}, 'kind': 'history'}
    subs.append((('C06', 'C11'), explicit_dir))

    def env_change():
        # TS_RS_EXPORT_DIR is read when an export happens: after it changes, exports go to the new directory
        a = run_history([['export_all', 'A']], env_dir='first').get('files', {})
        b = run_history([['export_all', 'B']], env_dir='second').get('files', {})
        exp = dict(a); exp.update(b)
        steps = [['export_all', 'A'], ['setenv', 'second'], ['export_all', 'B']]
        got = run_history(steps, env_dir='first')
        if got.get('files') != exp:
            return {'request': {'op': 'export_history', 'steps': steps, 'env_dir': 'first'}, 'result': {'files': got.get('files'), 'results': got.get('results'),
                    'expected_files': exp, 'agree': False, 'note': 'A is exported while TS_RS_EXPORT_DIR=first, B after it was changed to second'}, 'kind': 'history'}
    subs.append((('C06', 'C11'), env_change))

    def reach():
        # every exportable type reachable from the root gets its file, also when it is reachable only through the arguments of a
        # type written without `<..>` (alias) or through a type argument of the root
        for root, dep in (('AL', 'P1'), ('GR', 'P2'), ('RS', 'P3'), ('RS', 'P1'), ('VA', 'P2'), ('IR', 'P3'), ('C', 'A'), ('D', 'C')):
            a = run_history([['export_all', root]])
            b = run_history([['export_all', root], ['export_all', dep]])
            if any(r != 'ok' for r in b.get('results', [])):
                raise RuntimeError(f'reach: reference history failed: {b.get("results")}')
            if a.get('files') != b.get('files') or any(r != 'ok' for r in a.get('results', [])):
                return {'request': {'op': 'export_history', 'steps': [['export_all', root]]}, 'result': {'files': a.get('files'), 'results': a.get('results'),
                        'expected_files': b.get('files'), 'agree': False, 'note': f'expected_files = export_all({root}) followed by export_all({dep}): {dep} is reachable from {root}, so the second call must change nothing'}, 'kind': 'history'}
    subs.append((('C11',), reach))

    def docs():
        # documented declarations sharing a file: every order gives notice + each type's own chunk once, in name order; a doc comment
        # with a blank line, merged LAST, arrives intact (merging something after it is known finding D7a and is not searched here)
        from driver import replay as _rp
        for h, tys in (([['export_all', 'A'], ['export_all', 'M']], ['A', 'M']), ([['export_all', 'A'], ['export_all', 'N']], ['A', 'N']),
                       ([['export_all', 'N'], ['export_all', 'A']], ['A', 'N']), ([['export_all', 'N'], ['export_all', 'B'], ['export_all', 'A']], ['A', 'B', 'N']),
                       ([['export_all', 'B'], ['export_all', 'A'], ['export_all', 'N']], ['A', 'B', 'N']),
                       ([['export_all', 'Q'], ['export_all', 'A']], ['A', 'Q']), ([['export_all', 'A'], ['export_all', 'Q']], ['A', 'Q']),
                       ([['export_all', 'DM'], ['export_all', 'B']], ['B', 'DM']), ([['export_all', 'B'], ['export_all', 'DM']], ['B', 'DM']),
                       ([['export_all', 'DM'], ['export_all', 'A'], ['export_all', 'B']], ['A', 'B', 'DM']),
                       ([['export_all', 'UN'], ['export_all', 'A']], ['A', 'UN']), ([['export_all', 'A'], ['export_all', 'UN'], ['export_all', 'B']], ['A', 'B', 'UN']),
                       ([['export_all', 'UN'], ['export_all', 'DM'], ['export_all', 'A']], ['A', 'DM', 'UN']),
                       ([['export_all', 'Z'], ['export_all', 'Q'], ['export_all', 'B']], None)):
            if tys is None:
                continue
            got = run_history(h)
            exp = _rp.expected_shared_file(tys)
            act = got.get('files', {}).get('bindings/shared.ts')
            if exp is not None and act != exp:
                return {'request': {'op': 'export_history', 'steps': h}, 'result': {'files': got.get('files'), 'results': got.get('results'),
                        'expected_files': {'bindings/shared.ts': exp}, 'agree': False, 'note': 'expected: notice, then each type\'s own chunk once, in name order'}, 'kind': 'history'}
    subs.append((('C04', 'C05', 'C13', 'C15'), docs))

    def both_kept():
        # a field doc that names another declaration of the same file (the region of known finding D7b: WHERE the declaration lands is
        # not judged here): whatever the order, both declarations are in the file, each exactly once
        for h in ([['export_all', 'ZB'], ['export_all', 'B']], [['export_all', 'B'], ['export_all', 'ZB']], [['export_all', 'A'], ['export_all', 'ZB'], ['export_all', 'B']]):
            got = run_history(h)
            txt = got.get('files', {}).get('bindings/shared.ts') or ''
            n_zb, n_b = txt.count('export type ZB = '), txt.count('export type B = ')
            if n_zb != 1 or n_b != 1 or any(r != 'ok' for r in got.get('results', [])):
                return {'request': {'op': 'export_history', 'steps': h}, 'result': {'files': got.get('files'), 'results': got.get('results'), 'agree': False,
                        'expected_files': None, 'note': f'`export type ZB = ` occurs {n_zb} time(s), `export type B = ` {n_b} time(s); each must occur exactly once'}, 'kind': 'history-count',
                        'counts': {'export type ZB = ': 1, 'export type B = ': 1}, 'file': 'bindings/shared.ts'}
    subs.append((('C04', 'C05', 'C15'), both_kept))

    def generic_siblings():
        # a generic declaration `Pair<T>` next to `Pair2`, `Pair3`: every export order gives the same bytes
        import itertools as _it
        ref = None
        for perm in _it.permutations(['Pair', 'Pair2', 'Pair3']):
            got = run_history([['export_all', t] for t in perm])
            f = got.get('files', {}).get('bindings/pairs.ts')
            if ref is None:
                ref = (perm, f)
            elif f != ref[1] or f is None:
                return {'request': {'op': 'export_history', 'steps': [['export_all', t] for t in perm]}, 'result': {'files': got.get('files'), 'results': got.get('results'),
                        'expected_files': {'bindings/pairs.ts': ref[1]}, 'agree': False, 'note': f'expected_files = the same types exported in the order {list(ref[0])}'}, 'kind': 'history'}
    subs.append((('C05', 'C13'), generic_siblings))

    def faults():
        # a failed export must not be recorded as done (C17): obstacle before one step, removed before the retry of that step
        for first, second in (('A', 'B'), ('B', 'A')):
            h = [['export_all', first], ['hide', 'bindings/shared.ts'], ['export_all', second], ['restore', 'bindings/shared.ts'], ['export_all', second]]
            got = run_history(h)
            res = got.get('results', [])
            ok = len(res) == 5 and isinstance(res[2], dict) and 'err' in res[2] and res[4] == 'ok'
            if not ok or got.get('files') != want():
                return {'request': {'op': 'export_history', 'steps': h}, 'result': {'files': got.get('files'), 'results': res, 'expected_files': want(), 'agree': False,
                        'note': 'step 3 must fail with an error (target is a directory), the retry (step 5) must succeed and leave both declarations'}, 'kind': 'history'}
    subs.append((('C05', 'C17'), faults))

    def faults_deep():
        # the obstacle sits two levels below the root (D -> C -> A, B in shared.ts): the first export_all fails there; after the
        # obstacle is removed, repeating it gives the directory of a history without failure
        ref = run_history([['export_all', 'D']]).get('files', {})
        h = [['hide', 'bindings/shared.ts'], ['export_all', 'D'], ['restore', 'bindings/shared.ts'], ['export_all', 'D']]
        got = run_history(h)
        res = got.get('results', [])
        ok = len(res) == 4 and isinstance(res[1], dict) and 'err' in res[1] and res[3] == 'ok'
        if not ok or got.get('files') != ref:
            return {'request': {'op': 'export_history', 'steps': h}, 'result': {'files': got.get('files'), 'results': res, 'expected_files': ref, 'agree': False,
                    'note': 'step 2 must fail with an error (shared.ts is a directory), the retry (step 4) must succeed and leave the same files as one export_all(D) without failure'}, 'kind': 'history'}
    subs.append((('C17',), faults_deep))

    def again():
        # repeated export is a no-op
        steps = [['export_all', 'A'], ['export_all', 'B'], ['export', 'A'], ['export_all_to', 'B', './bindings']]
        got = run_history(steps)
        if got.get('files') != want():
            return {'request': {'op': 'export_history', 'steps': steps}, 'result': {'files': got.get('files'), 'expected_files': want(), 'agree': False}, 'kind': 'history'}
    subs.append((('C05',), again))
    return subs


def search_export_history(failure):
    """C06/C05/C17: the final directory contents must depend only on the set of exported types. With `only_for` set (bounded
    stand-in), only the sub-searches that speak for that property are run."""
    only = failure.get('only_for')
    for props, thunk in _hist_subsearches():
        if only and only not in props:
            continue
        w = thunk()
        if w:
            w['speaks_for'] = list(props)
            return w
    return None


def search_lexical(failure):
    ob = failure['obligation']
    names = ['', 'a', '1a', 'a b', 'a"b', 'a\\b', 'a\nb', '"', '\\', 'é', '_', '$x', 'a-b', '٣rd', '٣', 'a٣', '²x', 'x²', 'Ⅷa', 'aⅧ'] + [s for s in strings(['a', '"', '\\', '1', ' '], 3)]
    docs = [[' a'], ['/ x'], [' a */ b'], [' **/*.rs'], [' x *'], ['*', '/'], [' a\n b */ c\n'], [' a\n*/'], ['/\n'], [' a *', '/ b'], []]
    docs += [[''.join(t)] for t in itertools.product(['*', '/', ' ', 'a', '\n'], repeat=3)]
    docs += [[a, b] for a in (' a', ' a\n b', '', ' a\n') for b in (' c', ' c\n d', '')] + [[' a\n b', ' c', ' d']]
    reqs = [{'op': 'ts_field_name', 's': n} for n in names] + [{'op': 'parse_docs', 'docs': d} for d in docs]
    only = failure.get('only_for')
    if only == 'C15':
        reqs = [r for r in reqs if r['op'] == 'parse_docs']
    elif only and only != 'C04':
        return None
    if 'field-name' in ob or 'quote' in ob:
        reqs = [r for r in reqs if r['op'] == 'ts_field_name']
    if 'C15' in ob or 'doc' in ob:
        reqs = [r for r in reqs if r['op'] == 'parse_docs']
    outs = batch(reqs)
    for rq, o in zip(reqs, outs):
        if not o.get('agree', True):
            return {'request': rq, 'result': o}
    if any(r['op'] == 'parse_docs' for r in reqs):
        # the comment block also has to survive in a file shared with other types (really derived, documented types)
        for props, thunk in _hist_subsearches():
            if thunk.__name__ == 'docs':
                w = thunk()
                if w:
                    return w
    return None


def search_attrs(failure):
    """Attribute handling on the real derive: documented-incompatible combinations are errors and nothing panics (C16); a key given
    in both spellings takes the ts value (C10); names of really derived types against serde_json's keys (C09 call sites)."""
    ob = failure['obligation']
    only = failure.get('only_for')
    ops = []
    if only == 'C16' or (not only and ('C16' in ob.split('.')[0] or 'rejects' in ob or 'valid' in ob)):
        ops.append('derive_outcomes')
    if only == 'C10' or (not only and 'C10' in ob.split('.')[0]):
        ops.append('ts_wins')
        ops.append('serde_equiv')
    if only == 'C09' or (not only and 'C09' in ob.split('.')[0]):
        ops.append('binding_keys')
    for op in ops:
        o = batch([{'op': op}])[0]
        for c in o.get('cases', []):
            if not c.get('agree', True):
                return {'request': {'op': op}, 'result': c}
    return None


def search_templates(failure):
    """Generated code (unit templates) on really derived types: literal shapes of the enum representations, documented fields,
    output paths (directory form / file form / default)."""
    only = failure.get('only_for')
    ob = failure['obligation']
    if only in (None, 'C04', 'C15'):
        o = batch([{'op': 'variant_literals'}])[0]
        for c in o.get('cases', []):
            is_doc = 'documentation' in c.get('case', '')
            if only == 'C15' and not is_doc:
                continue
            if only == 'C04' and is_doc:
                continue
            if not c.get('agree', True):
                return {'request': {'op': 'variant_literals'}, 'result': c}
    if only in (None, 'C04'):
        o = batch([{'op': 'flatten_shapes'}])[0]
        for c in o.get('cases', []):
            if not c.get('agree', True):
                return {'request': {'op': 'flatten_shapes'}, 'result': c}
        o = batch([{'op': 'binding_keys'}])[0]
        for c in o.get('cases', []):
            if not c.get('agree', True):
                return {'request': {'op': 'binding_keys'}, 'result': c}
    if only in (None, 'C11'):
        # D is exported in directory form (`nested/dir/`), A..Z in file form, C by default
        got = run_history([['export_all', 'D']])
        have = sorted(got.get('files', {}).keys())
        want_files = ['bindings/C.ts', 'bindings/nested/dir/D.ts', 'bindings/shared.ts']
        if have != want_files:
            return {'request': {'op': 'export_history', 'steps': [['export_all', 'D']]}, 'result': {'files': got.get('files'), 'expected_file_names': want_files, 'agree': False,
                    'note': 'default: <name>.ts; export_to ending in `/`: that directory + <name>.ts; otherwise the given file'}, 'kind': 'history-files', 'want': want_files}
    return None


SEARCHERS = {'inflection': search_inflection, 'paths': search_paths, 'paths_esm': search_paths, 'export_chain': search_export_history, 'registry': search_export_history, 'lexical': search_lexical, 'recursion': search_export_history, 'merge': search_export_history, 'merge_imports': search_export_history, 'deps': search_export_history, 'gen_imports': search_export_history, 'containers': search_export_history, 'attrs': search_attrs, 'parsers': search_attrs, 'entry': search_attrs, 'skip_comma': search_attrs, 'templates': search_templates, 'field_deps': search_export_history}


def search(pid, unit, failure, seed):
    f = SEARCHERS.get(unit)
    if unit == 'lexical' and pid == 'C09':
        f = search_attrs   # to_ts_ident feeds the renaming rules: names of really derived types against serde_json's keys
        failure = dict(failure, only_for='C09')
    if not f:
        return None
    if pid and not failure.get('only_for') and not re.match(r'C\d+', str(failure.get('obligation', '')).split('.')[0]):
        # an obligation without a property in its name (proof step, closure contract, invariant, panic site): search with the
        # oracles of the property being checked
        failure = dict(failure, only_for=pid)
    return f(failure)


# properties each searcher's oracle can speak for (bounded stand-in only)
SPEAKS_FOR = {'search_templates': ('C04', 'C11', 'C15'), 'search_attrs': ('C09', 'C10', 'C16'), 'search_inflection': ('C04', 'C09', 'C16'), 'search_paths': ('C08', 'C17'), 'search_lexical': ('C04', 'C15'),
              'search_export_history': ('C04', 'C05', 'C06', 'C08', 'C11', 'C13', 'C15', 'C17')}


def run_named(spec):
    """A registered bounded stand-in (units.json `bounded_standins`): `hist:<sub-search>` or `op:<replay op>`. Returns a witness or None."""
    kind, name = spec.split(':', 1)
    if kind == 'fresh':
        # the same request in several fresh processes (each with its own hash seed): the answers must be identical
        exe = natives.build_replay()
        outs = []
        for _ in range(5):
            p = subprocess.run([exe, json.dumps({'op': name})], capture_output=True, text=True, timeout=120)
            outs.append(p.stdout.strip().splitlines()[-1] if p.stdout.strip() else p.stderr[-300:])
        if len(set(outs)) > 1:
            a, b = outs[0], next(o for o in outs if o != outs[0])
            k = next((i for i in range(min(len(a), len(b))) if a[i] != b[i]), 0)
            return {'request': {'op': name, 'processes': 5}, 'result': {'distinct_answers': len(set(outs)), 'first_difference_at_char': k,
                    'one': a[max(0, k - 200):k + 300], 'another': b[max(0, k - 200):k + 300], 'agree': False}, 'kind': 'fresh'}
        return None
    if kind == 'probe':
        ok, text, errs = natives.build_probe()
        if ok:
            return None
        # the probe only speaks when the crate itself still builds (otherwise the change does not compile at all)
        natives.build_replay()
        return {'request': {'op': 'probe_build', 'crate': 'replay/probe'}, 'result': {'errors': errs, 'compiler_output_tail': text[-3000:], 'agree': False,
                'expected': 'every item of replay/probe/src/lib.rs is a valid input of the derive: the crate has to compile'}, 'kind': 'probe'}
    if kind == 'hist':
        for props, thunk in _hist_subsearches():
            if thunk.__name__ == name:
                return thunk()
        raise KeyError(name)
    name, _, feats = name.partition('@')
    feats = tuple(f for f in feats.split(',') if f)
    o = batch([{'op': name}], feats)[0]
    if o.get('undetermined'):
        raise RuntimeError(o['undetermined'])
    for c in o.get('cases', []):
        if not c.get('agree', True):
            w = {'request': {'op': name}, 'result': c}
            if feats:
                w['features'] = list(feats)
            return w
    return None


def search_standin(pid, unit):
    """Bounded stand-in for a unit the verifier could not take after a change: the same searches on the real code, restricted to
    the oracles that speak for `pid`. Returns a witness or None."""
    f = SEARCHERS.get(unit)
    if not f or pid not in SPEAKS_FOR.get(f.__name__, ()):
        return None
    return f({'obligation': f'{pid}.bounded-stand-in', 'only_for': pid})


def rerun(rec):
    w = rec['witness']
    if w.get('kind') == 'fresh':
        r = run_named('fresh:' + w['request']['op'])
        print('replayed in five fresh processes on the current tree:', 'answers differ' if r else 'identical answers')
        return 1 if r else 0
    if w.get('kind') == 'probe':
        ok, text, errs = natives.build_probe()
        print('compile probe on the current tree:', 'builds' if ok else errs)
        return 0 if ok else 1
    if w.get('kind') == 'history-files':
        got = run_history(w['request']['steps'])
        have = sorted(got.get('files', {}).keys())
        print('replayed history on the current tree, files written:', have, 'expected:', w['want'])
        return 1 if have != w['want'] else 0
    if w.get('kind') == 'history-count':
        got = run_history(w['request']['steps'])
        txt = got.get('files', {}).get(w['file']) or ''
        have = {k: txt.count(k) for k in w['counts']}
        print('replayed history on the current tree, occurrences in', w['file'], ':', have, 'expected:', w['counts'])
        return 1 if have != w['counts'] else 0
    if w.get('kind') == 'history-imports':
        got = run_history(w['request']['steps'])
        txt = got.get('files', {}).get(w['file']) or ''
        have = [l for l in txt.split('\n') if l.startswith('import ')]
        print('replayed history on the current tree, import lines of', w['file'], ':', have, 'expected:', w['lines'])
        return 1 if have != w['lines'] else 0
    if w.get('kind') == 'history':
        got = run_history(w['request']['steps'], env_dir=w['request'].get('env_dir')) if isinstance(w['request']['steps'], list) else {}
        want = w['result'].get('expected_files')
        print('replayed history on the current tree:', json.dumps(got.get('files'), ensure_ascii=False)[:600])
        return 1 if got.get('files') != want else 0
    o = batch([w['request']], tuple(w.get('features', ())))[0]
    bad = [c for c in o.get('cases', []) if not c.get('agree', True)]
    print('replayed on the current tree:', json.dumps(bad if o.get('cases') is not None else o, ensure_ascii=False)[:3000])
    return 1 if not o.get('agree', True) else 0
