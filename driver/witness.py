"""Concrete-input search on the REAL code for a failed obligation (decorates the verifier's verdict)."""
import itertools
import json
import subprocess

from driver import natives

RULES = {'Lower': 'lowercase', 'Upper': 'UPPERCASE', 'Camel': 'camelCase', 'Snake': 'snake_case', 'Pascal': 'PascalCase',
         'ScreamingSnake': 'SCREAMING_SNAKE_CASE', 'Kebab': 'kebab-case', 'ScreamingKebab': 'SCREAMING-KEBAB-CASE'}


def batch(reqs, features=()):
    exe = natives.build_replay(features)
    inp = '\n'.join(json.dumps(r) for r in reqs) + '\n'
    p = subprocess.run([exe], input=inp, capture_output=True, text=True, timeout=600)
    outs = [json.loads(l) for l in p.stdout.splitlines() if l.strip()]
    return outs


def strings(alphabet, maxlen):
    for n in range(0, maxlen + 1):
        for t in itertools.product(alphabet, repeat=n):
            yield ''.join(t)


def search_inflection(failure):
    name = failure['obligation']
    if 'call-site' in name or 'from_variant' in name:
        # call-site obligations: really derived types, property names of the binding vs the keys serde_json writes
        o = batch([{'op': 'binding_keys'}])[0]
        for c in o.get('cases', []):
            if not c.get('agree', True):
                return {'request': {'op': 'binding_keys'}, 'result': c}
        return None
    parts = name.split('.')
    rules = list(RULES)
    poss = ['field', 'variant']
    if len(parts) >= 3 and parts[1] in poss:
        poss = [parts[1]]
        if parts[2] in RULES:
            rules = [parts[2]]
    cands = ['', '_', '__', 'a', 'A', 'aB', 'fooBar', 'Foo_Bar', 'foo_bar', 'FooBar', 'É', 'Éa', 'ß', 'a1', '_a', 'a_', 'a__b', 'r#type']
    cands += [s for s in strings(['a', 'B', '_', '1', 'É'], 4)]
    reqs = [{'op': 'inflection', 'rule': RULES[r], 'pos': p, 's': s} for r in rules for p in poss for s in cands]
    outs = batch(reqs)
    for rq, o in zip(reqs, outs):
        if not o.get('agree', True):
            return {'request': rq, 'result': o}
    return None


PATH_WORDS = ['.', '..', 'a', 'b.ts', 'x.ts.ts', '.h.ts', '.g', 'c.d']


def _rel_paths(maxdepth):
    for n in range(1, maxdepth + 1):
        for t in itertools.product(PATH_WORDS, repeat=n):
            yield '/'.join(t)


def search_paths(failure):
    ob = failure['obligation']
    reqs = []
    if 'import_path' in ob or 'diff_paths' in ob or 'C08' in ob:
        files = [p for p in _rel_paths(3) if not p.endswith('.') and not p.endswith('..')]
        files = files[:60]
        for f in files:
            for i in files:
                reqs.append({'op': 'import_path', 'from': 'bindings/' + f, 'import': 'bindings/' + i})
        reqs = reqs[:4000]
        # components that differ only in letter case, or where one is a prefix of the other, are different directories
        near = ['a/f.ts', 'A/f.ts', 'a/F.ts', 'é/f.ts', 'É/f.ts', 'ab/f.ts', 'a/b/f.ts', 'A/b/f.ts', 'a/B/f.ts', 'a /f.ts', 'f.ts', 'F.ts']
        reqs += [{'op': 'import_path', 'from': 'bindings/' + f, 'import': 'bindings/' + i} for f in near for i in near]
    ups = ['../' * k + 'x.ts' for k in range(0, 8)]
    reqs += [{'op': 'absolute', 'path': p} for p in ups + list(_rel_paths(3))]
    reqs += [{'op': 'absolute', 'path': '/' + p} for p in ['..', 'a/../..', 'a/../../b', '../a', 'a/..', 'a/./../b', '.', 'a/b/../../..', 'a/b/../../../c']]
    outs = batch(reqs)
    for rq, o in zip(reqs, outs):
        if not o.get('agree', True):
            return {'request': rq, 'result': o}
    return None


def run_history(steps, env_dir=None, features=()):
    import tempfile, shutil, os
    exe = natives.build_replay(features)
    d = tempfile.mkdtemp(prefix='vxh')
    try:
        req = {'op': 'export_history', 'root': d + '/w', 'env_dir': env_dir, 'steps': steps, 'collect': '.'}
        p = subprocess.run([exe, json.dumps(req)], capture_output=True, text=True, timeout=120)
        out = json.loads(p.stdout) if p.stdout.strip() else {'error': p.stderr[-500:]}
    finally:
        shutil.rmtree(d, ignore_errors=True)
    # normalise file keys (the collector walks from `.`)
    if 'files' in out:
        out['files'] = {os.path.normpath(k): v for k, v in out['files'].items()}
    return out


def search_export_history(failure):
    """C06/C05/C17: the final directory contents must depend only on the set of exported types."""
    kinds = [('export',), ('export_all',), ('export_all_to', './bindings'), ('export_all_to', 'bindings/../bindings/')]
    types = ['A', 'B']
    base = run_history([['export_all_to', 'A', 'bindings'], ['export_all_to', 'B', 'bindings']])
    want = base.get('files', {})
    for k1 in kinds:
        for k2 in kinds:
            for order in (['A', 'B'], ['B', 'A']):
                steps = [[k1[0], order[0]] + list(k1[1:]), [k2[0], order[1]] + list(k2[1:])]
                got = run_history(steps)
                if got.get('files') != want or any(r != 'ok' for r in got.get('results', [])):
                    return {'request': {'op': 'export_history', 'steps': steps}, 'result': {'files': got.get('files'), 'results': got.get('results'), 'expected_files': want, 'agree': False}, 'kind': 'history'}
    # the export directory spelled with a `..` segment (TS_RS_EXPORT_DIR), entry points mixed: still one file, both declarations
    for k1 in (('export',), ('export_all',)):
        for k2 in (('export',), ('export_all',)):
            for order in (['A', 'B'], ['B', 'A']):
                steps = [[k1[0], order[0]], [k2[0], order[1]]]
                got = run_history(steps, env_dir='x/../bindings')
                if got.get('files') != want or any(r != 'ok' for r in got.get('results', [])):
                    return {'request': {'op': 'export_history', 'steps': steps, 'env_dir': 'x/../bindings'}, 'result': {'files': got.get('files'), 'results': got.get('results'), 'expected_files': want, 'agree': False}, 'kind': 'history'}
    # a file left by an earlier run (longer than what is written now, with a declaration that no longer exists) is replaced, not patched
    stale = (want.get('bindings/shared.ts') or '') + '\nexport type Gone = { a_long_field_name_to_make_the_old_file_longer: string, another_one: number, };\n'
    for order in (['A', 'B'], ['B', 'A']):
        steps = [['write', 'bindings/shared.ts', stale]] + [['export_all', t] for t in order]
        got = run_history(steps)
        if got.get('files') != want:
            return {'request': {'op': 'export_history', 'steps': steps}, 'result': {'files': got.get('files'), 'results': got.get('results'), 'expected_files': want, 'agree': False,
                    'note': 'the first export of a process starts the file afresh'}, 'kind': 'history'}
    # types with dependencies: every order of the same calls must leave the same directory (C06), in particular
    # export(T) before export_all(T) must not stop the dependencies from being exported
    for h in ([['export', 'C'], ['export_all', 'C']], [['export', 'D'], ['export_all', 'D']], [['export', 'A'], ['export_all', 'C']],
              [['export_all_to', 'C', 'bindings'], ['export_all', 'D']], [['export_all', 'W1'], ['export_all', 'W2']], [['export', 'W2'], ['export', 'W1']]):
        a = run_history(h)
        b = run_history(list(reversed(h)))
        if a.get('files') != b.get('files'):
            return {'request': {'op': 'export_history', 'steps': h}, 'result': {'files': a.get('files'), 'results': a.get('results'),
                    'expected_files': b.get('files'), 'agree': False, 'note': 'expected_files = same calls in reverse order'}, 'kind': 'history'}
    # a declaration whose doc comment contains a blank line, merged LAST into a shared file, must arrive intact (C15/C05);
    # (merging something after it is known finding D7a and is not searched here)
    from driver import replay as _rp
    for h, tys in (([['export_all', 'A'], ['export_all', 'M']], ['A', 'M']), ([['export_all', 'B'], ['export_all', 'A'], ['export_all', 'Z']], None)):
        if tys is None:
            continue
        got = run_history(h)
        exp = _rp.expected_shared_file(tys)
        act = got.get('files', {}).get('bindings/shared.ts')
        if exp is not None and act != exp:
            return {'request': {'op': 'export_history', 'steps': h}, 'result': {'files': got.get('files'), 'results': got.get('results'),
                    'expected_files': {'bindings/shared.ts': exp}, 'agree': False, 'note': 'expected: notice, then each type\'s own chunk once, in name order'}, 'kind': 'history'}
    # a failed export must not be recorded as done (C17): obstacle before one step, removed before the retry of that step
    for first, second in (('A', 'B'), ('B', 'A')):
        h = [['export_all', first], ['hide', 'bindings/shared.ts'], ['export_all', second], ['restore', 'bindings/shared.ts'], ['export_all', second]]
        got = run_history(h)
        res = got.get('results', [])
        ok = len(res) == 5 and isinstance(res[2], dict) and 'err' in res[2] and res[4] == 'ok'
        if not ok or got.get('files') != want:
            return {'request': {'op': 'export_history', 'steps': h}, 'result': {'files': got.get('files'), 'results': res, 'expected_files': want, 'agree': False,
                    'note': 'step 3 must fail with an error (target is a directory), the retry (step 5) must succeed and leave both declarations'}, 'kind': 'history'}
    # repeated export is a no-op
    got = run_history([['export_all', 'A'], ['export_all', 'B'], ['export', 'A'], ['export_all_to', 'B', './bindings']])
    if got.get('files') != want:
        return {'request': {'op': 'export_history', 'steps': 'A,B then A,B again'}, 'result': {'files': got.get('files'), 'expected_files': want, 'agree': False}, 'kind': 'history'}
    return None


def search_lexical(failure):
    ob = failure['obligation']
    names = ['', 'a', '1a', 'a b', 'a"b', 'a\\b', 'a\nb', '"', '\\', 'é', '_', '$x', 'a-b'] + [s for s in strings(['a', '"', '\\', '1', ' '], 3)]
    docs = [[' a'], ['/ x'], [' a */ b'], [' **/*.rs'], [' x *'], ['*', '/'], [' a\n b */ c\n'], [' a\n*/'], ['/\n'], [' a *', '/ b'], []]
    docs += [[''.join(t)] for t in itertools.product(['*', '/', ' ', 'a', '\n'], repeat=3)]
    reqs = [{'op': 'ts_field_name', 's': n} for n in names] + [{'op': 'parse_docs', 'docs': d} for d in docs]
    if 'field-name' in ob or 'quote' in ob:
        reqs = [r for r in reqs if r['op'] == 'ts_field_name']
    if 'C15' in ob or 'doc' in ob:
        reqs = [r for r in reqs if r['op'] == 'parse_docs']
    outs = batch(reqs)
    for rq, o in zip(reqs, outs):
        if not o.get('agree', True):
            return {'request': rq, 'result': o}
    return None


SEARCHERS = {'inflection': search_inflection, 'paths': search_paths, 'paths_esm': search_paths, 'export_chain': search_export_history, 'registry': search_export_history, 'lexical': search_lexical, 'recursion': search_export_history, 'merge': search_export_history, 'merge_imports': search_export_history}


def search(pid, unit, failure, seed):
    f = SEARCHERS.get(unit)
    if not f:
        return None
    return f(failure)


def rerun(rec):
    w = rec['witness']
    if w.get('kind') == 'history':
        got = run_history(w['request']['steps'], env_dir=w['request'].get('env_dir')) if isinstance(w['request']['steps'], list) else {}
        want = w['result'].get('expected_files')
        print('replayed history on the current tree:', json.dumps(got.get('files'), ensure_ascii=False)[:600])
        return 1 if got.get('files') != want else 0
    o = batch([w['request']], tuple(w.get('features', ())))[0]
    print('replayed on the current tree:', json.dumps(o, ensure_ascii=False)[:3000])
    return 1 if not o.get('agree', True) else 0
