"""Concrete-input search on the REAL code for a failed obligation (decorates the verifier's verdict)."""
import itertools
import json
import subprocess

from driver import natives

RULES = {'Lower': 'lowercase', 'Upper': 'UPPERCASE', 'Camel': 'camelCase', 'Snake': 'snake_case', 'Pascal': 'PascalCase',
         'ScreamingSnake': 'SCREAMING_SNAKE_CASE', 'Kebab': 'kebab-case', 'ScreamingKebab': 'SCREAMING-KEBAB-CASE'}


def batch(reqs, features=()):
    exe = natives.build_replay(features)
    inp = '\n'.join(json.dumps(r) for r in reqs) + '\n'
    p = subprocess.run([exe], input=inp, capture_output=True, text=True, timeout=600)
    outs = [json.loads(l) for l in p.stdout.splitlines() if l.strip()]
    return outs


def strings(alphabet, maxlen):
    for n in range(0, maxlen + 1):
        for t in itertools.product(alphabet, repeat=n):
            yield ''.join(t)


def search_inflection(failure):
    name = failure['obligation']
    parts = name.split('.')
    rules = list(RULES)
    poss = ['field', 'variant']
    if len(parts) >= 3 and parts[1] in poss:
        poss = [parts[1]]
        if parts[2] in RULES:
            rules = [parts[2]]
    cands = ['', '_', '__', 'a', 'A', 'aB', 'fooBar', 'Foo_Bar', 'foo_bar', 'FooBar', 'É', 'Éa', 'ß', 'a1', '_a', 'a_', 'a__b', 'r#type']
    cands += [s for s in strings(['a', 'B', '_', '1', 'É'], 4)]
    reqs = [{'op': 'inflection', 'rule': RULES[r], 'pos': p, 's': s} for r in rules for p in poss for s in cands]
    outs = batch(reqs)
    for rq, o in zip(reqs, outs):
        if not o.get('agree', True):
            return {'request': rq, 'result': o}
    return None


PATH_WORDS = ['.', '..', 'a', 'b.ts', 'x.ts.ts', 'ts', 'c.d']


def _rel_paths(maxdepth):
    for n in range(1, maxdepth + 1):
        for t in itertools.product(PATH_WORDS, repeat=n):
            yield '/'.join(t)


def search_paths(failure):
    ob = failure['obligation']
    reqs = []
    if 'import_path' in ob or 'diff_paths' in ob or 'C08' in ob:
        files = [p for p in _rel_paths(3) if not p.endswith('.') and not p.endswith('..')]
        files = files[:60]
        for f in files:
            for i in files:
                reqs.append({'op': 'import_path', 'from': 'bindings/' + f, 'import': 'bindings/' + i})
        reqs = reqs[:4000]
    ups = ['../' * k + 'x.ts' for k in range(0, 8)]
    reqs += [{'op': 'absolute', 'path': p} for p in ups + list(_rel_paths(3))]
    outs = batch(reqs)
    for rq, o in zip(reqs, outs):
        if not o.get('agree', True):
            return {'request': rq, 'result': o}
    return None


SEARCHERS = {'inflection': search_inflection, 'paths': search_paths, 'paths_esm': search_paths}


def search(pid, unit, failure, seed):
    f = SEARCHERS.get(unit)
    if not f:
        return None
    return f(failure)


def rerun(rec):
    w = rec['witness']
    o = batch([w['request']], tuple(w.get('features', ())))[0]
    print('replayed on the current tree:', json.dumps(o, ensure_ascii=False))
    return 1 if not o.get('agree', True) else 0
