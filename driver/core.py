"""Driver: lift -> assemble -> verus -> obligation table -> verdict, evidence, replay (DESIGN.md 2, 5, 6)."""
import concurrent.futures as cf
import hashlib
import json
import os
import re
import shutil
import subprocess
import sys
import time

VERIF = os.path.dirname(os.path.dirname(os.path.abspath(__file__)))
sys.path.insert(0, VERIF)
from lift.assemble import assemble, REPO  # noqa: E402
from lift.lifter import LiftError  # noqa: E402

WORK = os.environ.get('VERIF_WORK') or os.path.join(VERIF, 'work')
EVID = os.environ.get('VERIF_EVID') or os.path.join(VERIF, 'evidence')

VERDICT_PATTERNS = [
    'postcondition not satisfied', 'precondition not satisfied', 'invariant not satisfied',
    'assertion failed', 'possible arithmetic underflow/overflow', 'possible division by zero',
    'decreases not satisfied', 'could not prove termination', 'assertion failure',
    'loop invariant not satisfied', 'possible bit shift underflow/overflow', 'unreachable',
    'cannot show invariant', 'possible truncation', 'possible overflow', 'possible underflow',
    'unable to prove post-condition of closure',
]
UNDECIDED_PATTERNS = ['Resource limit', 'rlimit', 'timed out', 'internal error', 'panicked']


def load_json(name):
    with open(os.path.join(VERIF, name), encoding='utf-8') as f:
        return json.load(f)


def units_cfg():
    return load_json('units.json')


def claimed_properties():
    return [c['property_id'] for c in load_json('MANIFEST.json')['checks']]


# ------------------------------------------------------------------------------------------------ verus

def run_verus(path, rlimit, logdir=None, seed=None, extra=None, timeout=900):
    cmd = ['verus', '--no-trait-conflicts', '--output-json', '--error-format=json', '--time',
           '--multiple-errors', '50', '--rlimit', str(rlimit)]
    if logdir:
        cmd += ['--log', 'air', '--log-dir', logdir]
    if seed is not None:
        cmd += ['--smt-option', f'smt.random_seed={seed}']
    if extra:
        cmd += extra
    cmd.append(os.path.basename(path))
    t0 = time.time()
    try:
        p = subprocess.run(cmd, cwd=os.path.dirname(path), capture_output=True, text=True, timeout=timeout)
        out, err, rc = p.stdout, p.stderr, p.returncode
    except subprocess.TimeoutExpired as e:
        out, err, rc = (e.stdout or b'').decode() if isinstance(e.stdout, bytes) else (e.stdout or ''), 'TIMEOUT', 124
    wall = time.time() - t0
    summary = None
    try:
        i = out.index('{')
        summary = json.loads(out[i:])
    except Exception:
        summary = None
    diags = []
    raw_other = []
    for ln in err.splitlines():
        ln = ln.strip()
        if ln.startswith('{') and '"$message_type"' in ln:
            try:
                d = json.loads(ln)
                if d.get('$message_type') == 'diagnostic':
                    diags.append(d)
            except Exception:
                raw_other.append(ln)
        elif ln:
            raw_other.append(ln)
    return {'cmd': ' '.join(cmd), 'rc': rc, 'summary': summary, 'diags': diags, 'stderr_other': raw_other, 'wall_s': wall}


def count_air_obligations(logdir, crate, fn_names):
    """Count `(assert` inside check-valid blocks of `;; Function-Def crate::<name>` sections."""
    per = {}
    total = 0
    try:
        files = [os.path.join(logdir, f) for f in os.listdir(logdir) if f.endswith('.air')]
    except FileNotFoundError:
        return 0, {}
    for fp in files:
        cur = None
        with open(fp, encoding='utf-8', errors='replace') as f:
            for ln in f:
                if ln.startswith(';; Function-Def '):
                    cur = ln[len(';; Function-Def '):].strip()
                    continue
                if ln.startswith(';; Function-') and not ln.startswith(';; Function-Def'):
                    cur = None
                    continue
                if cur and '(assert' in ln and ln.lstrip().startswith('(assert'):
                    short = cur.split('::', 1)[1] if '::' in cur else cur
                    per[short] = per.get(short, 0) + 1
    for k, v in per.items():
        total += v
    return total, per


# ------------------------------------------------------------------------------------------------ scan

def trusted_scan(text, table):
    """List assumed items by name; flag forbidden assume()/admit() outside comments."""
    items = []
    forbidden = []
    lines = text.split('\n')
    for i, ln in enumerate(lines):
        code = ln.split('//')[0]
        origin = table[i]['file'] if i < len(table) else None
        m = re.search(r'assume_specification\s*(<[^\[]*>)?\s*\[\s*([^\]]+?)\s*\]', code)
        if m:
            items.append('assume_specification ' + re.sub(r'\s+', '', m.group(2)))
        if 'external_body' in code:
            # name on this or following lines
            for j in range(i, min(i + 4, len(lines))):
                m2 = re.search(r'\b(fn|struct)\s+(\w+)', lines[j].split('//')[0])
                if m2:
                    items.append(f'external_body {m2.group(1)} {m2.group(2)}')
                    break
        m = re.search(r'\baxiom\s+fn\s+(\w+)', code)
        if m:
            items.append('axiom fn ' + m.group(1))
        m = re.search(r'\buninterp\s+spec\s+fn\s+(\w+)', code)
        if m:
            items.append('uninterp spec fn ' + m.group(1))
        if 'external_type_specification' in code or 'external_trait_specification' in code:
            for j in range(i, min(i + 4, len(lines))):
                m2 = re.search(r'\b(struct|trait)\s+(\w+)', lines[j].split('//')[0])
                if m2:
                    items.append(f'external_{m2.group(1)}_specification {m2.group(2)}')
                    break
        if re.search(r'\b(assume|admit)\s*\(', code):
            forbidden.append((i + 1, origin, ln.strip()))
    return sorted(set(items)), forbidden


# ------------------------------------------------------------------------------------------------ unit

GENERIC_TAGS = {None, 'sep', 'requires', 'ensures', 'invariant', 'decreases', 'requires-kw', 'ensures-kw',
                'invariant-kw', 'decreases-kw', 'invariant_except_break', 'invariant_except_break-kw',
                'proof', 'R0', 'R0-ret', 'R0-impl', 'R0-binder', 'R0-loophdr', 'R1', 'R2', 'R3', 'R5', 'R5-header',
                'R8', 'R-subst', 'rename', 'R3-derive', 'loop_ensures', 'loop_ensures-kw', 'R6', 'R7', 'R9', 'R11', 'R12', 'R13', 'R14', 'R16',
                'R0-attr', 'R0-static', 'include'}


_FN_RE = re.compile(r'^\s*(?:pub(?:\([a-z]+\))?\s+)?(?:(?:proof|spec|exec|open|closed|broadcast|axiom|uninterp)\s+)*fn\s+(\w+)')


def enclosing_fn(lines, ln):
    """Name of the function whose text contains assembled line `ln` (1-based): nearest `fn` header at or above it."""
    for i in range(min(ln, len(lines)) - 1, -1, -1):
        m = _FN_RE.match(lines[i])
        if m:
            return m.group(1)
    return None


def _is_verdict(msg):
    return any(p in msg for p in VERDICT_PATTERNS)


def _classify(diags, table, unit, cfg, text_lines=None, lifted=None):
    """Turn verus diagnostics into failures / undecided reasons."""
    failures, undecided = [], []
    for d in diags:
        if d.get('level') != 'error':
            continue
        msg = d.get('message', '')
        if msg.startswith('aborting due to'):
            continue
        spans = d.get('spans', [])
        if any(p in msg for p in UNDECIDED_PATTERNS) and not _is_verdict(msg):
            undecided.append(msg)
            continue
        if not _is_verdict(msg):
            loc = ''
            if spans:
                s0 = [s for s in spans if s.get('is_primary')] or spans
                ln = s0[0]['line_start']
                ent = table[ln - 1] if 0 < ln <= len(table) else {}
                loc = f" at {ent.get('file')}:{ent.get('line')} (assembled line {ln})"
            undecided.append('verifier front-end: ' + msg.split('\n')[0][:300] + loc)
            continue
        named = None
        src_loc = None
        in_lifted = False
        labels = []
        for s in sorted(spans, key=lambda s: not s.get('is_primary')):
            ln = s['line_start']
            own = os.path.basename(s.get('file_name', '')).startswith('u_')
            ent = table[ln - 1] if (own and 0 < ln <= len(table)) else {'file': 'vstd:' + s.get('file_name', '?'), 'line': None, 'tag': None}
            tag = ent.get('tag')
            labels.append({'assembled_line': ln, 'label': s.get('label'), 'file': ent.get('file'), 'line': ent.get('line'), 'tag': tag,
                           'text': (s.get('text') or [{}])[0].get('text', '').strip()[:200]})
            if tag not in GENERIC_TAGS and tag and not tag.startswith('CANARY'):
                named = named or tag
            f = ent.get('file')
            if f and not f.startswith('template:') and not f.startswith('spec/') and not f.startswith('vstd:') and ent.get('line'):
                in_lifted = True
                if src_loc is None:
                    src_loc = f"{f}:{ent.get('line')}"
            if tag in ('invariant', 'invariant_except_break', 'requires', 'ensures', 'decreases', 'loop_ensures'):
                in_lifted = True
        canary = any((l['tag'] or '').startswith('CANARY') for l in labels)
        kind = next((p for p in VERDICT_PATTERNS if p in msg), msg)
        if named:
            obligation = named
        elif src_loc:
            obligation = f'{unit}:{src_loc}:{kind}'
        else:
            obligation = f'{unit}:{kind}@' + (labels[0]['text'][:60] if labels else '?')
        # property attribution
        props = None
        if named:
            head = named.split('.')[0]
            cand = [p for p in head.split('+') if re.fullmatch(r'C\d{2,3}', p)]
            if cand:
                props = cand
        if props is None:
            if any((l['tag'] in ('invariant', 'invariant_except_break', 'decreases', 'loop_ensures')) for l in labels) or 'invariant' in kind:
                props = list(cfg['properties'])
            else:
                props = list(cfg.get('unnamed', cfg['properties']))
                # a panic / overflow site without a clause name: the derive must not panic (C16), an export must return an
                # error instead of panicking (C17) -- decided by the crate the failing line was lifted from
                for prefix, ps in (cfg.get('unnamed_by_path') or {}).items():
                    if src_loc and str(src_loc).startswith(prefix) and all(p in cfg['properties'] for p in ps):
                        props = list(ps)
        rec = {'obligation': obligation, 'kind': kind, 'message': msg.split('\n')[0], 'source': src_loc, 'labels': labels,
               'properties': props, 'canary': canary, 'rendered': d.get('rendered', '')[:4000],
               'function': enclosing_fn(text_lines, labels[0]['assembled_line']) if (text_lines and labels and not str(labels[0]['file']).startswith('vstd:')) else None}
        fn_name = rec.get('function')
        if not named and 'post-condition of closure' in kind and lifted and fn_name in lifted:
            # the contract spliced onto a closure (R12) belongs to the clauses of the enclosing function, not to the unit's
            # list for unnamed panic / overflow sites
            cl_props = sorted({p for n in lifted[fn_name] for p in n.split('.')[0].split('+') if re.fullmatch(r'C\d{2,3}', p)})
            if cl_props:
                rec['properties'] = cl_props
                rec['obligation'] = f"{unit}.{fn_name}.closure-contract: " + (labels[0]['text'][:90] if labels else '?')
        if not in_lifted and not named and not canary and lifted and fn_name in lifted and ('assertion failed' in kind or 'post-condition of closure' in kind):
            # a proof step spliced into a lifted function (a fact about the program state at that point, proved on the unchanged
            # tree) no longer holds: the verifier assumes it from there on, so the clauses it serves are no longer established.
            # It is a failed obligation of that function, attributed to the properties its named clauses serve.
            clauses = lifted[fn_name]
            props2 = sorted({p for n in clauses for p in n.split('.')[0].split('+') if re.fullmatch(r'C\d{2,3}', p)}) or list(cfg['properties'])
            rec['properties'] = props2
            rec['obligation'] = f"{unit}.{fn_name}." + ('closure-contract: ' if 'closure' in kind else 'proof-step: ') + (labels[0]['text'][:90] if labels else '?')
            rec['serves'] = clauses
            failures.append(rec)
            continue
        if not in_lifted and not named and not canary:
            undecided.append(f'proof of a framework lemma/spec failed ({kind}) at assembled line {labels[0]["assembled_line"] if labels else "?"}: ' + (labels[0]['text'] if labels else ''))
            continue
        failures.append(rec)
    return failures, undecided


RUN_TAG = '_unit'   # the property being checked: every invocation assembles and verifies in its own directory, so that several
                    # checks may run side by side (bin/check C05 & bin/check C13 & ...) without touching each other's files


def unit_dir(unit):
    return os.path.join(WORK, 'units', RUN_TAG, unit)


def _run_unit_once(unit, tier, seed, carry):
    cfg = units_cfg()[unit]
    t0 = time.time()
    wdir = unit_dir(unit)
    shutil.rmtree(wdir, ignore_errors=True)
    os.makedirs(wdir, exist_ok=True)
    res = {'unit': unit, 'status': 'ok', 'failures': [], 'undecided': [], 'properties': cfg['properties'], 'tier': tier,
           'auto_shims': dict(carry.get('auto_shims', {})), 'auto_havoc_decls': list(carry.get('auto_havoc_decls', [])),
           'auto_havoc': list(carry.get('auto_havoc', []))}
    crate = 'u_' + unit
    extra_shims = dict(res.get('auto_shims') or {})
    havoc = list(res.get('auto_havoc_decls') or [])
    try:
        degrade = carry.get('degrade') or False
        res['degraded'] = bool(degrade)
        xc = list(carry.get('extra_consts') or [])
        res['auto_lifted_consts'] = [n for _, n in xc]
        text, table, meta = assemble(os.path.join(VERIF, cfg['template']), extra_shims=extra_shims, havoc_decls=havoc, degrade=degrade, extra_consts=xc)
        ctext, ctable, _ = assemble(os.path.join(VERIF, cfg['template']), canary=True, extra_shims=extra_shims, havoc_decls=havoc, degrade=degrade, extra_consts=xc)
    except LiftError as e:
        res['status'] = 'undecided'
        res['undecided'].append(f'lift: {e}')
        res['wall_s'] = time.time() - t0
        return res
    except Exception as e:  # lexer / template problems are never a verdict
        res['status'] = 'undecided'
        res['undecided'].append(f'lift-internal: {type(e).__name__}: {e}')
        res['wall_s'] = time.time() - t0
        return res
    path = os.path.join(wdir, crate + '.rs')
    cpath = os.path.join(wdir, crate + '_canary.rs')
    open(path, 'w', encoding='utf-8').write(text)
    open(cpath, 'w', encoding='utf-8').write(ctext)
    json.dump(table, open(os.path.join(wdir, 'linetable.json'), 'w'))
    res['meta'] = meta
    res['degraded_fns'] = list(meta.get('degraded_fns', []))
    if res['degraded_fns']:
        res['degraded'] = True
    text_lines = text.split('\n')
    for la in meta.get('lost_anchors', []):
        props = sorted({p for n in la['clauses'] for p in n.split('.')[0].split('+') if re.fullmatch(r'C\d{2,3}', p)})
        res.setdefault('undecided_scoped', []).append({'msg': 'lift (block skipped): ' + la['msg'], 'properties': props or list(cfg['properties'])})
    trusted, forbidden = trusted_scan(text, table)
    res['trusted_base'] = trusted
    if forbidden:
        res['status'] = 'undecided'
        res['undecided'].append('assume()/admit() present in assembled file: ' + '; '.join(f'{o}:{l}' for l, o, _ in forbidden[:5]))
    rlimit = cfg.get('rlimit', 20)
    cfg_args = [x for c in cfg.get('cfg', []) for x in ('--cfg', c)]
    seeds = [None] if tier == 'quick' else [None, 1 + seed % 1000, 7 + seed % 1000]
    runs = []
    with cf.ThreadPoolExecutor(max_workers=4) as ex:
        futs = []
        for k, sd in enumerate(seeds):
            ld = os.path.join(wdir, f'log{k}') if k == 0 else None
            futs.append(('main', sd, ex.submit(run_verus, path, rlimit, ld, sd, cfg_args)))
        futs.append(('canary', None, ex.submit(run_verus, cpath, rlimit, None, None, cfg_args)))
        for role, sd, f in futs:
            runs.append((role, sd, f.result()))
    res['checker_cmds'] = [r['cmd'] for role, sd, r in runs if role == 'main']
    main_runs = [(sd, r) for role, sd, r in runs if role == 'main']
    canary_run = [r for role, sd, r in runs if role == 'canary'][0]
    # --- main
    smt_ms = 0
    fn_times = {}
    for sd, r in main_runs:
        if any('panicked at' in x for x in r['stderr_other']):
            res['undecided'].append('verus internal error (panic): ' + next(x for x in r['stderr_other'] if 'panicked at' in x)[:200])
        if r['summary'] is None:
            res['undecided'].append(f'verus produced no summary (rc={r["rc"]}): ' + ' | '.join(r['stderr_other'][:3])[:500])
        lifted = {(f.get('fn_emitted') or f.get('as') or f['name']): f.get('named_clauses', []) for f in meta.get('functions', []) if f['kind'] in ('item', 'tail', 'loop', 'let', 'quote')}
        fails, und = _classify(r['diags'], table, unit, cfg, text_lines, lifted)
        if sd is None:
            res['_diags'] = r['diags']
        for f in fails:
            f['smt_seed'] = sd
        if sd is None:
            res['failures'].extend(fails)
            res['undecided'].extend(und)
        else:
            # other seeds: a failure that the default seed does not show is instability -> undecided, not a verdict
            base = {f['obligation'] for f in res['failures']}
            for f in fails:
                if f['obligation'] not in base:
                    res['undecided'].append(f"proof unstable under smt.random_seed={sd}: {f['obligation']}")
            res['undecided'].extend(und)
        if r['summary'] and sd is None:
            vr = r['summary'].get('verification-results', {})
            res['verus_verified'] = vr.get('verified')
            res['verus_errors'] = vr.get('errors')
            try:
                for m in r['summary']['times-ms']['smt']['smt-run-module-times']:
                    for fb in m.get('function-breakdown', []):
                        fn_times[fb['function']] = fn_times.get(fb['function'], 0) + fb.get('time-micros', 0) / 1000.0
                smt_ms = r['summary']['times-ms']['smt']['total']
            except Exception:
                pass
    res['smt_time_ms'] = smt_ms
    res['fn_smt_ms'] = fn_times
    total, per = count_air_obligations(os.path.join(wdir, 'log0'), crate, None)
    res['obligations'] = total
    res['obligations_per_fn'] = per
    nfail = len({(f['obligation'], f['labels'][0]['assembled_line'] if f['labels'] else 0) for f in res['failures']})
    res['discharged'] = max(0, total - nfail)
    # --- canary: every twin must fail its `false` postcondition
    cf_fails, _ = _classify(canary_run['diags'], ctable, unit, cfg)
    want = sorted({e['tag'] for e in ctable if (e.get('tag') or '').startswith('CANARY')})
    twins = sorted({ln for ln in re.findall(r'fn\s+(\w+__canary)\b', ctext)})
    hit_lines = set()
    for f in cf_fails:
        if f['canary'] and 'postcondition' in f['kind']:
            for l in f['labels']:
                if (l['tag'] or '').startswith('CANARY'):
                    hit_lines.add(l['assembled_line'])
    canary_lines = [i + 1 for i, e in enumerate(ctable) if (e.get('tag') or '').startswith('CANARY')]
    res['canary'] = {'twins': twins, 'expected_failures': len(canary_lines), 'observed_failures': len(hit_lines & set(canary_lines))}
    if canary_run['summary'] is None:
        res['undecided'].append('canary run produced no summary')
    elif len(hit_lines & set(canary_lines)) != len(canary_lines):
        # a twin that verifies `ensures false` means contradictory requires / assumed specs (or a diverging body)
        missing = sorted(set(canary_lines) - hit_lines)
        allowed = cfg.get('canary_diverges', 0)
        if len(missing) > allowed:
            res['undecided'].append(f'vacuity canary: {len(missing)} twin(s) verified `ensures false` (assembled canary lines {missing[:5]})')
    if total == 0 and not res['undecided']:
        res['undecided'].append('zero obligations generated')
    named = [n for f in meta['functions'] for n in f.get('named_clauses', [])]
    res['named_clauses'] = named
    if res['failures']:
        res['status'] = 'failed'
    if res['undecided']:
        res['status'] = 'undecided' if not res['failures'] else 'failed'
    res['wall_s'] = time.time() - t0
    return res


# provided trait methods for which a shim with a real contract exists (applied on demand, when the verifier reports the method
# as unsupported in lifted code): name -> (shim, receiver prefix)
SHIM_TABLE = {'nth': ('vx_iter_nth', ''), 'count': ('vx_iter_count', ''), 'any': ('vx_iter_any', ''), 'all': ('vx_iter_all', ''),
              'last': ('vx_iter_last', ''), 'map': ('vx_iter_map', ''), 'peekable': ('vx_peekable', ''),
              'filter': ('vx_iter_filter', ''), 'flat_map': ('vx_iter_flat_map', ''), 'map_while': ('vx_iter_map_while', ''), 'fold': ('vx_iter_fold', ''),
              'collect': ('vx_collect_unconstrained', ''), 'split': ('vx_split', '')}
UNCONSTRAINED_SHIMS = {'collect'}


def _unsupported(diags):
    """(provided-method names, pasted declarations, their function paths) from `X is not supported` diagnostics."""
    methods, decls, paths = [], [], []
    for d in diags:
        msg = d.get('message', '')
        m = re.match(r'`([^`]+)` is not supported', msg)
        if not m:
            continue
        pth = m.group(1)
        if pth.endswith('::split') and 'str' in pth:     # inherent str::split: Split<P> crashes this Verus; use the eager shim
            methods.append('split')
            continue
        if pth == 'core::str::iter::Split':
            continue
        if '%default%' in pth:
            methods.append(pth.split('%default%')[-1])
            continue
        rendered = d.get('rendered', '')
        h = re.search(r'= help: The following declaration may resolve this error:\n((?:[ \t]+[^\n]*\n)+)', rendered)
        if h:
            decl = '\n'.join(l.strip() for l in h.group(1).splitlines() if l.strip())
            decl = decl.replace('#[verifier::external_type_specification]', '#[verifier::external_type_specification]\n#[verifier::external_body]')
            decl = re.sub(r'\[[\w:]+::<impl (.+?)>::(\w+)\] \(', r'[<\1>::\2] (', decl)
            decls.append(decl)
            paths.append(pth)
    return methods, decls, paths


def run_unit(unit, tier='quick', seed=0):
    """Run a unit; when the lifted code calls std functions the contract library does not know, retry with (a) shims that have a
    real contract (SHIM_TABLE) or (b) the verifier's own suggested declaration, unconstrained (auto-havoc)."""
    carry = {}
    r = None
    first = None
    for _round in range(6):
        r = _run_unit_once(unit, tier, seed, carry)
        if first is None:
            first = r
        und = [u for u in r['undecided'] if 'is not supported' in u]
        new = False
        if und:
            methods, decls, paths = _unsupported(r.get('_diags', []))
            for mname in methods:
                if mname in SHIM_TABLE and mname not in carry.setdefault('auto_shims', {}):
                    carry['auto_shims'][mname] = SHIM_TABLE[mname]
                    if mname in UNCONSTRAINED_SHIMS:
                        carry.setdefault('auto_havoc', []).append(f'Iterator::{mname} (unconstrained shim)')
                    new = True
            for dcl, pth in zip(decls, paths):
                if dcl not in carry.setdefault('auto_havoc_decls', []):
                    carry['auto_havoc_decls'].append(dcl)
                    carry.setdefault('auto_havoc', []).append(pth)
                    new = True
        # the lifted code mentions a crate-level constant the template does not lift: lift it from the same file and retry
        for u in r['undecided']:
            m = re.search(r'cannot find value `(\w+)` in this scope at ((?:ts-rs|macros)/\S+?\.rs):\d+', u)
            if m and (m.group(2), m.group(1)) not in carry.setdefault('extra_consts', []):
                try:
                    src_txt = open(os.path.join(REPO, m.group(2)), encoding='utf-8').read()
                except OSError:
                    src_txt = ''
                if re.search(r'(?m)^\s*(pub(\([a-z]+\))?\s+)?const\s+' + re.escape(m.group(1)) + r'\s*:', src_txt):
                    carry['extra_consts'].append((m.group(2), m.group(1)))
                    new = True
        # ghost text (invariants / hints) that no longer compiles against the lifted code: retry on pre/postconditions alone
        ghost_errs = [u for u in r['undecided'] if u.startswith('verifier front-end:') and ('at None:None' in u or 'at template:' in u)]
        if not new and carry.get('degrade') is not True and r['status'] == 'undecided' and ghost_errs:
            # only the functions whose ghost text is in error are degraded; the others keep their full contracts
            try:
                tl = open(os.path.join(unit_dir(unit), 'u_' + unit + '.rs'), encoding='utf-8').read().split('\n')
            except OSError:
                tl = []
            fns = set()
            for u in ghost_errs:
                m = re.search(r'\(assembled line (\d+)\)', u)
                fn = enclosing_fn(tl, int(m.group(1))) if (m and tl) else None
                fns.add(fn)
            lifted = {n for f in r.get('meta', {}).get('functions', []) if f['kind'] != 'type' for n in (f.get('fn_emitted'), f.get('as') or f['name']) if n}
            prev = carry.get('degrade') or set()
            if None in fns or not fns <= lifted or fns <= prev:
                carry['degrade'] = True
            else:
                carry['degrade'] = set(prev) | fns
            new = True
        if not new:
            break
    if r['status'] == 'undecided' and carry.get('degrade') and any(u.startswith('verifier front-end:') or u.startswith('lift') for u in r['undecided']):
        r = first   # the weakened attempts did not get past the front end either: report the plain run
    if r.get('degraded'):
        # with the invariants dropped, loop well-formedness / termination failures are artefacts of the weakening
        dfn = set(r.get('degraded_fns') or [])
        r['failures'] = [f for f in r['failures'] if not ((f.get('function') in dfn or f.get('function') is None) and
                                                          ('invariant' in f['kind'] or 'decreases' in f['kind'] or 'termination' in f['kind']))]
        if not r['failures'] and not r['undecided']:
            r['status'] = 'ok'
    # an unknown std function is given the verifier's suggested declaration with NO contract (auto-havoc): its result is arbitrary,
    # which is an over-approximation -- but a file operation also acts on the ghost disk, which an uncontracted call leaves as it
    # was. A run in which the lifted code calls a file operation the disk model does not know is therefore not a proof of the
    # clauses about file contents: the unit is undecided and the bounded stand-in search is asked instead.
    eff = [h for h in (r.get('auto_havoc') or []) if re.search(r'(\bfs::|\bFile\b|OpenOptions|io::Write|io::Seek|io::Read)', h)]
    if eff and 'std_fs_model.rs' in ''.join(r.get('meta', {}).get('includes', [])):
        r['status'] = 'undecided'
        r['undecided'].append('effect-unknown: the lifted code calls ' + ', '.join(eff) + ' -- a file operation the disk model (spec/std_fs_model.rs) has no contract for; what it does to the file is not accounted for')
    r.pop('_diags', None)
    return r


def print_unit_result(r):
    print(f"unit {r['unit']}: {r['status']}  obligations={r.get('obligations')} discharged={r.get('discharged')} "
          f"verified_fns={r.get('verus_verified')} canary={r.get('canary')} smt_ms={r.get('smt_time_ms')} wall={r.get('wall_s', 0):.1f}s")
    if r.get('degraded'):
        print('  degraded mode: loop invariants / proof hints dropped (they do not type-check against the lifted code) in', r.get('degraded_fns'))
    if r.get('auto_havoc') or r.get('auto_shims'):
        print('  auto-repair: shims', sorted((r.get('auto_shims') or {}).keys()), 'unconstrained std functions', r.get('auto_havoc'))
    for u in r['undecided']:
        print('  UNDECIDED:', u)
    for su in r.get('undecided_scoped', []):
        print('  UNDECIDED (properties', su['properties'], '):', su['msg'])
    for f in r['failures']:
        print(f"  FAILED {f['obligation']}  [{f['kind']}] props={f['properties']} src={f['source']}")
        for l in f['labels'][:3]:
            print(f"      {l['label'] or ''} | {l['file']}:{l['line']} tag={l['tag']} | {l['text'][:110]}")


# ------------------------------------------------------------------------------------------------ property

def known_findings():
    try:
        return load_json('known_findings.json')
    except FileNotFoundError:
        return {'findings': [], 'fixed': []}


def check_property(pid, tier='quick', seed=0):
    from driver import replay as rp
    global RUN_TAG
    RUN_TAG = pid + ('' if tier == 'quick' else '-' + tier)
    t0 = time.time()
    cfg = units_cfg()
    units = [u for u, c in cfg.items() if pid in c['properties']]
    if not units:
        print(f'UNDECIDED property={pid} reason=no unit serves this property')
        return 2
    os.makedirs(EVID, exist_ok=True)
    with cf.ThreadPoolExecutor(max_workers=min(8, len(units))) as ex:
        results = list(ex.map(lambda u: run_unit(u, tier, seed), units))
    violations, undecided = [], []
    for r in results:
        for u in r['undecided']:
            undecided.append(f"{r['unit']}: {u}")
        for su in r.get('undecided_scoped', []):
            if pid in su['properties']:
                undecided.append(f"{r['unit']}: {su['msg']}")
        for f in r['failures']:
            if pid in f['properties']:
                violations.append((r['unit'], f))
    # replay / witness search for each failed obligation
    lines = []
    kf = known_findings()
    kf_lines = rp.known_finding_lines(pid, kf, results)
    nviol = 0
    seen = set()
    havoc_unit = {r['unit']: list(r.get('auto_havoc', [])) for r in results}
    degr_fns = {r['unit']: set(r.get('degraded_fns') or []) for r in results}
    for unit, f in violations:
        key = (unit, f['obligation'])
        if key in seen:
            continue
        seen.add(key)
        path, found = rp.make_replay(pid, unit, f, seed)
        weak = list(havoc_unit.get(unit) or [])
        if degr_fns.get(unit) and (f.get('function') in degr_fns[unit] or f.get('function') is None):
            weak.append(f"<loop contracts and proof hints of `{f.get('function')}` not applied: they no longer match the lifted code>")
        if weak and not found:
            # the obligation fails in a run where std functions unknown to the contract library were left unconstrained:
            # without a failing input replayed on the real code this is "cannot decide", not a violation
            undecided.append(f"{unit}: {f['obligation']} fails in a weakened run {weak} and no failing input was found on the real code")
            continue
        nviol += 1
        lines.append(f'VIOLATION property={pid} replay={path}' + ('' if found else ' no-failing-input-found'))
    # bounded stand-in (DESIGN.md section 6): a unit the verifier's front end could not take after a change is not judged by
    # the verifier at all; the bounded search over the same oracles stands in for it. A found input is replayed on the real
    # code and reported (labelled bounded); finding none leaves the unit undecided.
    for r in results:
        fe = [u for u in r['undecided'] if u.startswith('verifier front-end:') or u.startswith('lift') or u.startswith('effect-unknown:')]
        fe += [su['msg'] for su in r.get('undecided_scoped', []) if pid in su['properties']]
        if not fe or nviol or (r['status'] != 'undecided' and not any(pid in su['properties'] for su in r.get('undecided_scoped', []))):
            continue
        path, found = rp.make_standin_replay(pid, r['unit'], fe, seed)
        if found:
            nviol += 1
            lines.append(f'VIOLATION property={pid} replay={path}')
            print(f'[{pid}] unit {r["unit"]}: outside the verifier\'s reach after this change ({fe[0][:160]}); bounded stand-in search found a failing input')
    # registered bounded stand-ins (units.json): functions the properties depend on that cannot be brought within the verifier's
    # reach at all; a bounded check of each runs in every tier, labelled bounded, never counted as proved
    bounded_report = []
    for bs_unit, bs_cfg in cfg.items():
        for bs in bs_cfg.get('bounded_standins', []):
            if pid not in bs['properties']:
                continue
            r = {'unit': bs_unit}
            entry = {'unit': bs_unit, 'covers': bs['covers'], 'bound': bs['bound'], 'run': bs['run']}
            try:
                from driver import witness as _w
                w = _w.run_named(bs['run'])
                entry['result'] = 'failing input found' if w else 'no failing input within the bound'
                if w:
                    d = os.path.join(WORK, 'replay')
                    os.makedirs(d, exist_ok=True)
                    tag = re.sub(r'[^A-Za-z0-9_.-]+', '_', bs['run'])
                    path = os.path.join(d, f"{pid}-{r['unit']}.{tag}.registered-bounded-stand-in.json")
                    json.dump({'property': pid, 'unit': r['unit'], 'obligation': f"{pid}.{r['unit']}.registered-bounded-stand-in", 'kind': 'bounded stand-in (not a proof obligation)',
                               'source': None, 'decided_by': 'bounded check of a function outside the verifier\'s reach: ' + bs['covers'], 'bound': bs['bound'],
                               'verifier_output': '', 'labels': [], 'witness': w}, open(path, 'w'), indent=1)
                    nviol += 1
                    lines.append(f'VIOLATION property={pid} replay={path}')
            except Exception as e:   # a stand-in that cannot run decides nothing: the part of the property it stands for is undecided
                entry['result'] = f'not run ({type(e).__name__}: {str(e)[:200]})'
                undecided.append(f"{bs_unit}: the registered bounded stand-in {bs['run']} could not be run on this tree ({type(e).__name__}: {str(e)[-300:]})".replace('\n', ' '))
            bounded_report.append(entry)
    thorough_extra = {}
    if tier == 'thorough' and not violations and not undecided:
        thorough_extra = rp.thorough_extras(pid, units, seed)
        for v in thorough_extra.get('violations', []):
            nviol += 1
            lines.append(v)
        for u in thorough_extra.get('undecided', []):
            undecided.append(u)
    write_evidence(pid, tier, seed, results, nviol, undecided, kf_lines, time.time() - t0, thorough_extra, bounded_report)
    for l in kf_lines:
        print(l)
    for r in results:
        print(f"[{pid}] unit {r['unit']}: {r['status']} obligations={r.get('obligations')} discharged={r.get('discharged')} "
              f"canary={r.get('canary', {}).get('observed_failures')}/{r.get('canary', {}).get('expected_failures')} wall={r.get('wall_s', 0):.1f}s")
    if lines:
        for l in lines:
            print(l)
        return 1
    if undecided:
        for u in undecided:
            print(f'UNDECIDED property={pid} reason={u}')
        return 2
    print(f'OK property={pid} tier={tier} units={len(units)} obligations={sum(r.get("obligations", 0) for r in results)}')
    return 0


def write_evidence(pid, tier, seed, results, nviol, undecided, kf_lines, wall, extra, bounded_report=None):
    cfg = units_cfg()
    man = load_json('MANIFEST.json')
    chk = next((c for c in man['checks'] if c['property_id'] == pid), None)
    obligations = sum(r.get('obligations', 0) for r in results)
    discharged = sum(r.get('discharged', 0) for r in results)
    trusted = sorted({t for r in results for t in r.get('trusted_base', [])})
    trusted += ['flag --no-trait-conflicts', 'verus 0.2026.09.13 / z3 / rustc 1.98.1', 'lifter rewrites R0-R16 (DESIGN.md section 3)']
    samples = []
    functions = []
    rewrites = []
    for r in results:
        meta = r.get('meta', {})
        for f in meta.get('functions', []):
            if f['kind'] == 'type':
                continue
            name = f.get('as') or f['name']
            ob = sum(v for k, v in r.get('obligations_per_fn', {}).items() if k.split('::')[-1] == name)
            smt = sum(v for k, v in r.get('fn_smt_ms', {}).items() if k.split('::')[-1] == name)
            functions.append({'unit': r['unit'], 'function': (f.get('impl') + '::' if f.get('impl') else '') + f['name'],
                              'lift': f['kind'], 'source': f"{f['file']}:{f['lines'][0]}-{f['lines'][1]}", 'text_sha256_16': f['sha256_16'],
                              'air_asserts': ob, 'smt_ms': round(smt, 1), 'named_clauses': f.get('named_clauses', [])})
            for n in f.get('named_clauses', [])[:4]:
                if len(samples) < 12 and (n.split('.')[0].find(pid) >= 0):
                    samples.append({'obligation': n, 'function': f['name'], 'anchor': f"{f['file']}:{f['lines'][0]}", 'unit': r['unit'],
                                    'status': 'failed' if any(x['obligation'] == n for x in r['failures']) else 'discharged'})
        rewrites += [f"{r['unit']}: {x}" for x in meta.get('lift_rewrites', [])]
    if not samples:
        for fn in functions[:6]:
            samples.append({'obligation': f"{fn['unit']}:{fn['function']} ({fn['air_asserts']} AIR assertions)", 'anchor': fn['source'], 'status': 'discharged'})
    ev = {
        'property_id': pid, 'tier': tier, 'seed': seed, 'level': 'proof',
        'coverage': {
            'obligations': obligations, 'discharged': discharged,
            'checker_cmd': '; '.join(c for r in results for c in r.get('checker_cmds', [])[:1]),
            'trusted_base': trusted,
            'samples': samples,
            'rule': 'obligations = `(assert` statements inside the check-valid queries of this run\'s AIR log (all functions of the assembled unit files, '
                    'lifted functions and framework lemmas); discharged = obligations minus distinct failed assertions reported by Verus',
            'back_end': 'Verus 0.2026.09.13 (AIR -> Z3), single-file mode',
            'functions_under_contract': functions,
            'units': [{'unit': r['unit'], 'status': r['status'], 'obligations': r.get('obligations'), 'discharged': r.get('discharged'),
                       'verus_functions_verified': r.get('verus_verified'), 'verus_errors': r.get('verus_errors'),
                       'smt_time_ms': r.get('smt_time_ms'), 'wall_s': round(r.get('wall_s', 0), 2), 'canary': r.get('canary'),
                       'failures': [{k: f[k] for k in ('obligation', 'kind', 'source', 'properties')} for f in r['failures']],
                       'auto_shims': sorted((r.get('auto_shims') or {}).keys()), 'auto_havoc_unconstrained_std_functions': r.get('auto_havoc', []),
                       'degraded_fns': r.get('degraded_fns', []), 'undecided': r['undecided']} for r in results],
            'lift_rewrites': rewrites,
            'smt_time_ms': sum(r.get('smt_time_ms', 0) for r in results),
            'known_findings_printed': kf_lines,
            'bounded_standins': bounded_report or [],
            'not_decided': (chk or {}).get('level_note', ''),
            'undecided': undecided,
        },
        'assumptions': assumptions_for(pid, results),
        'wall_s': round(wall, 2),
        'violations': nviol,
    }
    if extra:
        ev['coverage']['thorough'] = extra.get('report', {})
    with open(os.path.join(EVID, pid + '.json'), 'w', encoding='utf-8') as f:
        json.dump(ev, f, indent=1)


def assumptions_for(pid, results):
    out = [
        'std contract library spec/std_*.rs: every assume_specification / external_body / uninterp item listed in coverage.trusted_base is assumed, not proved',
        'Verus, Z3 and rustc are trusted; --no-trait-conflicts is passed (needed for OsStr)',
        'the lifter (lift/*.py) cuts the real text out of /repo and applies only the logged rewrites (coverage.lift_rewrites)',
    ]
    cfg = units_cfg()
    for r in results:
        for a in cfg[r['unit']].get('assumptions', []):
            out.append(f"{r['unit']}: {a}")
    return out


def replay_file(pid, path):
    from driver import replay as rp
    return rp.replay_file(pid, path)
