//! C10 on the real derive, in process (bounded stand-in for the `impl_parse!` parser programs, which no contract reaches):
//! for every position of an attribute list, every supported serde key and every arrangement of inert serde keys around it
//! (none / before / after / both, with and without a trailing comma, in the same list or in a list of its own), the expansion
//! of the item written with `#[serde(..)]` must be token-for-token the expansion of the item written with `#[ts(key)]` alone;
//! when both spellings are present with different values the `ts` one decides.
//!
//! The grid is the stated bound. A cell is identified by `position / key / arrangement`; the oracle is the property itself
//! (identical bindings), taken at the place the property names: the token stream the derive produces.
use serde_json::{json, Value};
use super::catch;

fn expand(item: &str) -> Result<String, String> {
    let s = item.to_string();
    match catch(move || {
        let ts: proc_macro2::TokenStream = s.parse().map_err(|e: proc_macro2::LexError| e.to_string())?;
        macrolib::verif_api::derive(ts).map(|t| t.to_string()).map_err(|e| format!("derive error: {e}"))
    }) {
        Ok(r) => r,
        Err(p) => Err(format!("PANIC: {p}")),
    }
}

struct Pos {
    name: &'static str,
    /// the item with `{A}` where the attribute lists of this position go
    item: &'static str,
    /// supported serde keys at this position: (serde text, ts text, a second value for "ts wins" (ts text) or "")
    keys: &'static [(&'static str, &'static str, &'static str)],
    /// inert serde keys that are plausible at this position (unknown to ts-rs, or known no-ops)
    inert: &'static [&'static str],
}

const POSITIONS: &[Pos] = &[
    Pos { name: "struct", item: "{A} struct S { some_field: i32, other_one: Inner }",
          keys: &[("rename = \"Wire\"", "rename = \"Wire\"", "rename = \"Other\""), ("rename_all = \"camelCase\"", "rename_all = \"camelCase\"", "rename_all = \"UPPERCASE\""),
                  ("tag = \"kind\"", "tag = \"kind\"", "tag = \"t2\"")],
          inert: &["expecting = \"ääääääääääääääääääääääääääääääääääääääääääääääääääääääääääääääääääääää\"", "expecting = \"xääääääääääääääääääääääääääääääääääääääääääääääääääääääääääääääääääääää\"", "deny_unknown_fields", "default", "transparent", "default = \"path::to\"", "expecting = \"x\"", "crate = \"serde2\"", "from = \"Other\"", "remote = \"Other\""] },
    Pos { name: "generic-struct", item: "{A} struct S<T> { some_field: T }",
          keys: &[("bound = \"T: Clone\"", "bound = \"T: Clone\"", "")],
          inert: &["deny_unknown_fields", "default = \"path::to\"", "expecting = \"x\""] },
    Pos { name: "enum", item: "{A} enum E { VarOne { some_field: i32 }, VarTwo { other_one: String }, UnitVar }",
          keys: &[("rename = \"Wire\"", "rename = \"Wire\"", "rename = \"Other\""), ("rename_all = \"snake_case\"", "rename_all = \"snake_case\"", "rename_all = \"UPPERCASE\""),
                  ("rename_all_fields = \"camelCase\"", "rename_all_fields = \"camelCase\"", "rename_all_fields = \"UPPERCASE\""),
                  ("tag = \"kind\"", "tag = \"kind\"", "tag = \"t2\""), ("tag = \"kind\", content = \"c\"", "tag = \"kind\", content = \"c\"", "tag = \"kind\", content = \"c2\""),
                  ("untagged", "untagged", "")],
          inert: &["expecting = \"ääääääääääääääääääääääääääääääääääääääääääääääääääääääääääääääääääääää\"", "expecting = \"xääääääääääääääääääääääääääääääääääääääääääääääääääääääääääääääääääääää\"", "deny_unknown_fields", "expecting = \"x\"", "crate = \"serde2\"", "variant_identifier", "from = \"Other\""] },
    Pos { name: "variant-struct", item: "enum E { First, {A} VarOne { some_field: i32 }, Last(i32) }",
          keys: &[("rename = \"wire\"", "rename = \"wire\"", "rename = \"other\""), ("rename_all = \"camelCase\"", "rename_all = \"camelCase\"", "rename_all = \"UPPERCASE\""),
                  ("skip", "skip", ""), ("untagged", "untagged", "")],
          inert: &["alias = \"ääääääääääääääääääääääääääääääääääääääääääääääääääääääääääääääääääääää\"", "alias = \"xääääääääääääääääääääääääääääääääääääääääääääääääääääääääääääääääääääää\"", "other", "skip_serializing", "alias = \"al\"", "deserialize_with = \"f\"", "borrow"] },
    Pos { name: "variant-tuple", item: "enum E { First, {A} VarTwo(i32, String), Last { x: i32 } }",
          keys: &[("rename = \"wire\"", "rename = \"wire\"", "rename = \"other\""), ("skip", "skip", ""), ("untagged", "untagged", "")],
          inert: &["other", "skip_deserializing", "alias = \"al\"", "serialize_with = \"f\""] },
    Pos { name: "variant-unit", item: "enum E { First, {A} UnitVar, Last { x: i32 } }",
          keys: &[("rename = \"wire\"", "rename = \"wire\"", "rename = \"other\""), ("skip", "skip", "")],
          inert: &["other", "alias = \"al\""] },
    Pos { name: "field", item: "struct S { first: i32, {A} some_field: Inner, last_one: i32 }",
          keys: &[("rename = \"wire\"", "rename = \"wire\"", "rename = \"other\""), ("skip", "skip", ""), ("flatten", "flatten", "")],
          inert: &["alias = \"ääääääääääääääääääääääääääääääääääääääääääääääääääääääääääääääääääääää\"", "alias = \"xääääääääääääääääääääääääääääääääääääääääääääääääääääääääääääääääääääää\"", "default", "skip_serializing", "default = \"path::to\"", "alias = \"al\"", "skip_serializing_if = \"Option::is_none\"", "borrow", "getter = \"g\"",
                   "bound(serialize = \"T: X\")"] },
    Pos { name: "variant-field", item: "enum E { V { first: i32, {A} some_field: Inner }, W }",
          keys: &[("rename = \"wire\"", "rename = \"wire\"", "rename = \"other\""), ("skip", "skip", ""), ("flatten", "flatten", "")],
          inert: &["default", "skip_deserializing", "alias = \"al\"", "skip_serializing_if = \"Option::is_none\""] },
    Pos { name: "tuple-field", item: "struct S(i32, {A} Inner, String);",
          keys: &[("skip", "skip", "")],
          inert: &["default", "alias = \"al\"", "skip_serializing_if = \"Option::is_none\""] },
];

/// supported serde keys written in a form ts-rs does not read (serde accepts them): they must be inert as well
const UNREADABLE: &[(&str, &[&str])] = &[
    ("struct", &["rename(serialize = \"a\", deserialize = \"b\")", "rename_all(serialize = \"camelCase\")", "bound(serialize = \"T: X\")"]),
    ("enum", &["rename(serialize = \"a\")", "rename_all(serialize = \"camelCase\", deserialize = \"snake_case\")", "bound(deserialize = \"T: X\")"]),
    ("variant-struct", &["rename(serialize = \"a\", deserialize = \"b\")", "rename_all(serialize = \"camelCase\")"]),
    ("field", &["rename(serialize = \"a\", deserialize = \"b\")"]),
    ("variant-field", &["rename(deserialize = \"b\")"]),
];

fn lists(pos: &Pos, arrangement: &str, key: &str, a: &str, b: &str) -> Option<String> {
    Some(match arrangement {
        "alone" => format!("#[serde({key})]"),
        "trailing-comma" => format!("#[serde({key},)]"),
        "inert-before" => format!("#[serde({a}, {key})]"),
        "inert-after" => format!("#[serde({key}, {a})]"),
        "inert-both" => format!("#[serde({a}, {key}, {b})]"),
        "inert-both-trailing-comma" => format!("#[serde({a}, {key}, {b},)]"),
        "two-inert-before" => format!("#[serde({a}, {b}, {key})]"),
        "inert-own-list-before" => format!("#[serde({a})] #[serde({key})]"),
        "inert-own-list-after" => format!("#[serde({key})] #[serde({a})]"),
        _ => { let _ = pos; return None; }
    })
}
const ARRANGEMENTS: &[&str] = &["alone", "trailing-comma", "inert-before", "inert-after", "inert-both", "inert-both-trailing-comma", "two-inert-before",
                                "inert-own-list-before", "inert-own-list-after"];

pub fn run(req: &Value) -> Value {
    let only = req["only"].as_str().map(|s| s.to_string());
    // The comparison below needs the expansion to be a function of the item. Each position's plain item is expanded eight times
    // first: if two runs on the same text differ (a hash-ordered repetition, ..) nothing can be compared -- that is C13's business
    // (registered stand-in fresh:expansion_text) -- and the grid says so instead of reporting differences that are not about C10.
    for pos in POSITIONS {
        let item = pos.item.replace("{A}", "");
        let first = expand(&item);
        for _ in 0..7 {
            if expand(&item) != first {
                return json!({"undetermined": format!("the expansion of `{item}` is not deterministic (two runs on the same text differ): the spellings cannot be compared")});
            }
        }
    }
    let mut cases = vec![];
    let mut n = 0usize;
    let mut bad = 0usize;
    let mut undetermined = 0usize;
    let mut check = |cell: String, serde_item: String, ts_item: String, cases: &mut Vec<Value>| {
        if let Some(o) = &only { if !cell.starts_with(o.as_str()) { return; } }
        n += 1;
        let (a, b) = (expand(&serde_item), expand(&ts_item));
        // an expansion that is not a function of the item (two runs on the same text differ, e.g. a hash-ordered repetition) cannot
        // be compared: that is C13's business (registered stand-in fresh:expansion_text), the cell is left undecided here
        if let (Ok(x), Ok(y)) = (&b, &expand(&ts_item)) { if x != y { undetermined += 1; return; } }
        let agree = match (&a, &b) { (Ok(x), Ok(y)) => x == y, _ => false };
        if !agree {
            bad += 1;
            if cases.len() < 400 {
                let (sa, sb) = (a.clone().unwrap_or_else(|e| e), b.clone().unwrap_or_else(|e| e));
                let k = sa.bytes().zip(sb.bytes()).position(|(p, q)| p != q).unwrap_or(sa.len().min(sb.len()));
                let cut = |s: &str| { let lo = k.saturating_sub(60); let lo = (0..=lo).rev().find(|i| s.is_char_boundary(*i)).unwrap_or(0);
                                      let hi = (k + 100).min(s.len()); let hi = (hi..=s.len()).find(|i| s.is_char_boundary(*i)).unwrap_or(s.len()); s[lo..hi].to_string() };
                cases.push(json!({"cell": cell, "item": serde_item, "must_expand_like": ts_item, "agree": false,
                                  "expansion_differs_at": {"serde_spelling": cut(&sa), "ts_spelling": cut(&sb)}}));
            }
        }
    };
    for pos in POSITIONS {
        for (skey, tkey, tkey2) in pos.keys {
            let ts_item = pos.item.replace("{A}", &format!("#[ts({tkey})]"));
            for arr in ARRANGEMENTS {
                let inert: Vec<(&str, &str)> = if *arr == "alone" || *arr == "trailing-comma" { vec![("", "")] } else {
                    pos.inert.iter().enumerate().map(|(i, a)| (*a, pos.inert[(i + 1) % pos.inert.len()])).collect() };
                for (a, b) in inert {
                    if let Some(l) = lists(pos, arr, skey, a, b) {
                        check(format!("{}/{}/{}/{}", pos.name, skey, arr, a), pos.item.replace("{A}", &l), ts_item.clone(), &mut cases);
                    }
                }
            }
            // both spellings, different values: ts decides, whatever the order of the two lists
            if !tkey2.is_empty() {
                let ts2 = pos.item.replace("{A}", &format!("#[ts({tkey2})]"));
                check(format!("{}/{}/ts-wins/serde-first", pos.name, skey), pos.item.replace("{A}", &format!("#[serde({skey})] #[ts({tkey2})]")), ts2.clone(), &mut cases);
                check(format!("{}/{}/ts-wins/ts-first", pos.name, skey), pos.item.replace("{A}", &format!("#[ts({tkey2})] #[serde({skey})]")), ts2.clone(), &mut cases);
            }
            // a supported key in a form ts-rs does not read, next to this key
            for (pname, forms) in UNREADABLE {
                if *pname != pos.name { continue; }
                for f in *forms {
                    if f.split('(').next() == skey.split(' ').next() { continue; }   // the same key twice is not a valid serde list
                    check(format!("{}/{}/unreadable-before/{}", pos.name, skey, f), pos.item.replace("{A}", &format!("#[serde({f}, {skey})]")), ts_item.clone(), &mut cases);
                    check(format!("{}/{}/unreadable-after/{}", pos.name, skey, f), pos.item.replace("{A}", &format!("#[serde({skey}, {f})]")), ts_item.clone(), &mut cases);
                }
            }
        }
        // inert keys alone change nothing at all
        let plain = pos.item.replace("{A}", "");
        for a in pos.inert {
            check(format!("{}/-/inert-alone/{}", pos.name, a), pos.item.replace("{A}", &format!("#[serde({a})]")), plain.clone(), &mut cases);
        }
    }
    json!({"cells": n, "disagreements": bad, "cells_with_nondeterministic_expansion": undetermined, "cases": cases, "agree": bad == 0})
}
