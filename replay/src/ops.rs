use serde_json::{json, Value};
use super::{catch, infl};

pub fn dispatch(req: &Value) -> Value {
    match req["op"].as_str().unwrap_or("") {
        "inflection" => inflection(req),
        other => json!({"error": format!("unknown op {other}")}),
    }
}

/// C09/C16: Inflection on a field / variant identifier vs serde_derive's own RenameRule.
fn inflection(req: &Value) -> Value {
    let rule = req["rule"].as_str().unwrap();
    let pos = req["pos"].as_str().unwrap();
    let s = req["s"].as_str().unwrap().to_string();
    let (i, r) = infl(rule).unwrap();
    let s2 = s.clone();
    let expected = catch(move || if pos == "field" { r.apply_to_field(&s2) } else { r.apply_to_variant(&s2) });
    let pos2 = pos.to_string();
    let actual = catch(move || macrolib::verif_api::inflect(i, pos2 == "field", &s));
    let agree = match (&actual, &expected) {
        (Ok(a), Ok(e)) => a == e,
        (Ok(_), Err(_)) => true,      // serde itself panics: no wire name exists, nothing to compare
        (Err(_), _) => false,         // ts-rs panicked (C16)
    };
    json!({"actual": actual.clone().ok(), "panic": actual.err(), "expected": expected.clone().ok(), "serde_panics": expected.is_err(), "agree": agree})
}
