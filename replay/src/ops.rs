use serde_json::{json, Value};
use super::{catch, infl};

pub fn dispatch(req: &Value) -> Value {
    match req["op"].as_str().unwrap_or("") {
        "inflection" => inflection(req),
        "absolute" => absolute(req),
        "import_path" => import_path(req),
        other => json!({"error": format!("unknown op {other}")}),
    }
}

/// C09/C16: Inflection on a field / variant identifier vs serde_derive's own RenameRule.
fn inflection(req: &Value) -> Value {
    let rule = req["rule"].as_str().unwrap();
    let pos = req["pos"].as_str().unwrap();
    let s = req["s"].as_str().unwrap().to_string();
    let (i, r) = infl(rule).unwrap();
    let s2 = s.clone();
    let expected = catch(move || if pos == "field" { r.apply_to_field(&s2) } else { r.apply_to_variant(&s2) });
    let pos2 = pos.to_string();
    let actual = catch(move || macrolib::verif_api::inflect(i, pos2 == "field", &s));
    let agree = match (&actual, &expected) {
        (Ok(a), Ok(e)) => a == e,
        (Ok(_), Err(_)) => true,      // serde itself panics: no wire name exists, nothing to compare
        (Err(_), _) => false,         // ts-rs panicked (C16)
    };
    json!({"actual": actual.clone().ok(), "panic": actual.err(), "expected": expected.clone().ok(), "serde_panics": expected.is_err(), "agree": agree})
}

use std::path::{Component, Path, PathBuf};

/// Property-level oracle for C08/C17: lexical normalisation where `..` may only remove a normal component.
fn norm(p: &Path) -> Option<PathBuf> {
    let mut out: Vec<Component> = vec![];
    for c in p.components() {
        match c {
            Component::CurDir => {}
            Component::ParentDir => match out.last() {
                Some(Component::Normal(_)) => { out.pop(); }
                _ => return None,
            },
            c => out.push(c),
        }
    }
    Some(out.iter().collect())
}

/// C17/C08: path::absolute(p) vs norm(cwd.join(p)); Err(CannotBeExported) iff the path climbs above the root.
fn absolute(req: &Value) -> Value {
    let p = PathBuf::from(req["path"].as_str().unwrap());
    let cwd = std::env::current_dir().unwrap();
    let expected = norm(&cwd.join(&p));
    let p2 = p.clone();
    let actual = catch(move || ts_rs::__verif::absolute(&p2).map_err(|e| format!("{e:?}")));
    let agree = match (&actual, &expected) {
        (Ok(Ok(a)), Some(e)) => a == e,
        (Ok(Err(_)), None) => true,
        _ => false,
    };
    json!({"cwd": cwd, "actual": format!("{:?}", actual), "expected": format!("{:?}", expected), "agree": agree,
           "panic": actual.as_ref().err()})
}

/// C08: the specifier, resolved against dir(from), must denote `import`.
fn import_path(req: &Value) -> Value {
    let from = PathBuf::from(req["from"].as_str().unwrap());
    let import = PathBuf::from(req["import"].as_str().unwrap());
    let esm = cfg!(feature = "import-esm");
    let (f2, i2) = (from.clone(), import.clone());
    let actual = catch(move || ts_rs::__verif::import_path(&f2, &i2).map_err(|e| format!("{e:?}")));
    let cwd = std::env::current_dir().unwrap();
    let want = norm(&cwd.join(&import));
    let mut notes = vec![];
    let mut agree = true;
    if !import.to_string_lossy().ends_with(".ts") {
        // hypothesis of the resolution law: the dependency's file carries the `.ts` extension (TypeScript cannot import anything else)
        return json!({"skipped": "import file does not end in .ts", "agree": true});
    }
    if let (Some(w), Some(d)) = (&want, norm(&cwd.join(&from)).and_then(|p| p.parent().map(|x| x.to_path_buf()))) {
        if d.starts_with(w) {
            // a path cannot be both the dependency's file and a directory containing the importing file
            return json!({"skipped": "import is the importing file's directory or an ancestor", "agree": true});
        }
    }
    match &actual {
        Ok(Ok(s)) => {
            if !(s.starts_with("./") || s.starts_with("../")) { agree = false; notes.push("not relative"); }
            if s.contains('\\') { agree = false; notes.push("backslash"); }
            if s.ends_with(".js") != esm { agree = false; notes.push("js suffix vs import-esm"); }
            let stem = if esm { s.strip_suffix(".js").unwrap_or(s) } else { s.as_str() };
            let file = format!("{stem}.ts");
            let dir = cwd.join(&from).parent().map(|p| p.to_path_buf()).unwrap_or_default();
            let resolved = norm(&dir.join(&file));
            if resolved != want || want.is_none() { agree = false; notes.push("does not resolve to the dependency's file"); }
            json!({"actual": s, "resolved": format!("{:?}", resolved), "expected_file": format!("{:?}", want), "agree": agree, "notes": notes})
        }
        Ok(Err(e)) => json!({"actual_err": e, "expected_file": format!("{:?}", want), "agree": want.is_none() || norm(&cwd.join(&from)).is_none()}),
        Err(p) => json!({"panic": p, "agree": false}),
    }
}
