use serde_json::{json, Value};
use super::{catch, infl};

pub fn dispatch(req: &Value) -> Value {
    match req["op"].as_str().unwrap_or("") {
        "inflection" => inflection(req),
        "absolute" => absolute(req),
        "import_path" => import_path(req),
        "export_history" => export_history(req),
        "binding_keys" => binding_keys(),
        "derive_outcomes" => derive_outcomes(),
        "ts_wins" => ts_wins(),
        "serde_equiv" => super::equiv::run(req),
        "variant_literals" => variant_literals(),
        "flatten_shapes" => flatten_shapes(),
        "expansion_text" => expansion_text(req),
        "ts_field_name" => ts_field_name(req),
        "parse_docs" => parse_docs(req),
        "conformance" => super::conformance::run(req["seed"].as_u64().unwrap_or(0), req["n"].as_u64().unwrap_or(2000) as usize),
        other => json!({"error": format!("unknown op {other}")}),
    }
}

/// C09/C16: Inflection on a field / variant identifier vs serde_derive's own RenameRule.
fn inflection(req: &Value) -> Value {
    let rule = req["rule"].as_str().unwrap();
    let pos = req["pos"].as_str().unwrap();
    let s = req["s"].as_str().unwrap().to_string();
    let (i, r) = infl(rule).unwrap();
    let s2 = s.clone();
    let expected = catch(move || if pos == "field" { r.apply_to_field(&s2) } else { r.apply_to_variant(&s2) });
    let pos2 = pos.to_string();
    let actual = catch(move || macrolib::verif_api::inflect(i, pos2 == "field", &s));
    let agree = match (&actual, &expected) {
        (Ok(a), Ok(e)) => a == e,
        (Ok(_), Err(_)) => true,      // serde itself panics: no wire name exists, nothing to compare
        (Err(_), _) => false,         // ts-rs panicked (C16)
    };
    json!({"actual": actual.clone().ok(), "panic": actual.err(), "expected": expected.clone().ok(), "serde_panics": expected.is_err(), "agree": agree})
}

use std::path::{Component, Path, PathBuf};

/// Property-level oracle for C08/C17: lexical normalisation where `..` may only remove a normal component.
fn norm(p: &Path) -> Option<PathBuf> {
    let mut out: Vec<Component> = vec![];
    for c in p.components() {
        match c {
            Component::CurDir => {}
            Component::ParentDir => match out.last() {
                Some(Component::Normal(_)) => { out.pop(); }
                _ => return None,
            },
            c => out.push(c),
        }
    }
    Some(out.iter().collect())
}

/// C17/C08: path::absolute(p) vs norm(cwd.join(p)); Err(CannotBeExported) iff the path climbs above the root.
fn absolute(req: &Value) -> Value {
    let p = PathBuf::from(req["path"].as_str().unwrap());
    let cwd = std::env::current_dir().unwrap();
    let expected = norm(&cwd.join(&p));
    let p2 = p.clone();
    let actual = catch(move || ts_rs::__verif::absolute(&p2).map_err(|e| format!("{e:?}")));
    let agree = match (&actual, &expected) {
        (Ok(Ok(a)), Some(e)) => a == e,
        (Ok(Err(_)), None) => true,
        _ => false,
    };
    json!({"cwd": cwd, "actual": format!("{:?}", actual), "expected": format!("{:?}", expected), "agree": agree,
           "panic": actual.as_ref().err()})
}

/// C08: the specifier, resolved against dir(from), must denote `import`.
fn import_path(req: &Value) -> Value {
    let from = PathBuf::from(req["from"].as_str().unwrap());
    let import = PathBuf::from(req["import"].as_str().unwrap());
    let esm = cfg!(feature = "import-esm");
    let (f2, i2) = (from.clone(), import.clone());
    let actual = catch(move || ts_rs::__verif::import_path(&f2, &i2).map_err(|e| format!("{e:?}")));
    let cwd = std::env::current_dir().unwrap();
    let want = norm(&cwd.join(&import));
    let mut notes = vec![];
    let mut agree = true;
    let plain = !import.to_string_lossy().ends_with(".ts");
    // a dependency file without the `.ts` extension keeps its whole name in the specifier (only `.ts` is ever removed)
    if let (Some(w), Some(d)) = (&want, norm(&cwd.join(&from)).and_then(|p| p.parent().map(|x| x.to_path_buf()))) {
        if d.starts_with(w) {
            // a path cannot be both the dependency's file and a directory containing the importing file
            return json!({"skipped": "import is the importing file's directory or an ancestor", "agree": true});
        }
    }
    match &actual {
        Ok(Ok(s)) => {
            if !(s.starts_with("./") || s.starts_with("../")) { agree = false; notes.push("not relative"); }
            if s.contains('\\') { agree = false; notes.push("backslash"); }
            if s.ends_with(".js") != esm { agree = false; notes.push("js suffix vs import-esm"); }
            let stem = if esm { s.strip_suffix(".js").unwrap_or(s) } else { s.as_str() };
            let file = if plain { stem.to_string() } else { format!("{stem}.ts") };
            let dir = cwd.join(&from).parent().map(|p| p.to_path_buf()).unwrap_or_default();
            let resolved = norm(&dir.join(&file));
            if resolved != want || want.is_none() { agree = false; notes.push("does not resolve to the dependency's file"); }
            json!({"actual": s, "resolved": format!("{:?}", resolved), "expected_file": format!("{:?}", want), "agree": agree, "notes": notes})
        }
        Ok(Err(e)) => json!({"actual_err": e, "expected_file": format!("{:?}", want), "agree": want.is_none() || norm(&cwd.join(&from)).is_none()}),
        Err(p) => json!({"panic": p, "agree": false}),
    }
}

// ---------------------------------------------------------------------------------------------------------
// C06 / C05 / C17: export histories on real derived types (fresh process per history: the registry is global)
mod hist {
    use ts_rs::TS;
    #[derive(TS)]
    #[ts(export_to = "shared.ts")]
    /// Doc of A
    pub struct A { pub x: i32 }
    #[derive(TS)]
    #[ts(export_to = "shared.ts")]
    pub struct B { pub y: String }
    /** Doc of M, first paragraph

second paragraph after a blank line */
    #[derive(TS)]
    #[ts(export_to = "shared.ts")]
    pub struct M { pub m: i32 }
    /// Doc of N
    #[derive(TS)]
    #[ts(export_to = "shared.ts")]
    pub struct N { pub n: i32 }
    #[derive(TS)]
    #[ts(export_to = "shared.ts")]
    pub struct ZB {
        /// see export type B for the alias (a FIELD doc that names another declaration of the same file)
        pub z: i32,
    }
    /// Größe in Metern — naïve, ≤ 3 ✓ (documentation that is not ASCII: characters and bytes differ)
    #[derive(TS)]
    #[ts(export_to = "shared.ts")]
    pub struct UN {
        /// Länge ✓
        pub u: i32,
    }
    /// replaces the former export type B alias (a doc comment that names another declaration of the same file)
    #[derive(TS)]
    #[ts(export_to = "shared.ts")]
    pub struct DM { pub d: i32 }
    #[derive(TS)]
    #[ts(export_to = "shared.ts")]
    pub struct Z {
        /// mentions export type Aaa in a field doc
        pub z: i32,
    }
    #[derive(TS)]
    #[ts(export_to = "deps.ts")]
    pub struct P1 { pub p: i32 }
    #[derive(TS)]
    #[ts(export_to = "deps.ts")]
    pub struct P2 { pub p: i32 }
    #[derive(TS)]
    #[ts(export_to = "deps.ts")]
    pub struct P3 { pub p: i32 }
    #[derive(TS)]
    #[ts(export_to = "views.ts")]
    pub struct W1 { pub x: P2 }
    #[derive(TS)]
    #[ts(export_to = "views.ts")]
    pub struct W2 { pub y: P1, pub z: P3 }
    // a generic type next to siblings whose names extend its identifier
    #[derive(TS)]
    #[ts(export_to = "pairs.ts")]
    pub struct Pair<T> { pub a: T, pub b: T }
    #[derive(TS)]
    #[ts(export_to = "pairs.ts")]
    pub struct Pair2 { pub a: i32 }
    #[derive(TS)]
    #[ts(export_to = "pairs.ts")]
    pub struct Pair3 { pub a: i32 }
    /** One line of documentation, the comment is closed on the next line
*/
    #[derive(TS)]
    #[ts(export_to = "shared.ts")]
    pub struct Q { pub q: i32 }
    // a dependency whose directory name contains ` from `, imported by two types that share a file (the merged header is re-parsed)
    #[derive(TS)]
    #[ts(export_to = "replies from server/reply.ts")]
    pub struct RF { pub r: i32 }
    #[derive(TS)]
    #[ts(export_to = "client/types.ts")]
    pub struct CA { pub r: RF }
    #[derive(TS)]
    #[ts(export_to = "client/types.ts")]
    pub struct CB { pub r: RF, pub p: P1 }
    // the same type first inlined, then referred to by name: the named reference still needs the type's own file
    #[derive(TS)]
    #[ts(export_to = "inline_then_name.ts")]
    pub struct IR { #[ts(inline)] pub a: P3, pub b: P3 }
    // a dependency reachable only through a variant-level `as`
    #[derive(TS)]
    #[ts(export_to = "variant_as_root.ts")]
    pub enum VA { #[ts(as = "P2")] X(String), Y }
    // dependencies reachable only through the arguments of Result's error type
    #[derive(TS)]
    #[ts(export_to = "result_root.ts")]
    pub struct RS { pub r: Result<P1, Vec<P3>> }
    // a dependency reachable only through the arguments of a type spelled without `<..>` (alias), and through a root-level argument
    pub type AliasVec = Vec<P1>;
    #[derive(TS)]
    #[ts(export_to = "alias_root.ts")]
    pub struct AL { pub items: AliasVec }
    #[derive(TS)]
    #[ts(export_to = "generic_root.ts")]
    pub struct GR<T> { pub value: T }
    #[derive(TS)]
    pub struct C { pub a: A, pub b: Option<B> }
    #[derive(TS)]
    #[ts(export_to = "nested/dir/")]
    pub struct D { pub c: C }
}

fn export_step(kind: &str, ty: &str, dir: Option<&str>) -> Result<(), String> {
    use ts_rs::TS;
    macro_rules! go { ($t:ty) => { match kind {
        "export" => <$t>::export(),
        "export_all" => <$t>::export_all(),
        "export_all_to" => <$t>::export_all_to(dir.unwrap()),
        _ => panic!("unknown step kind"),
    } } }
    let r = match ty { "A" => go!(hist::A), "B" => go!(hist::B), "C" => go!(hist::C), "D" => go!(hist::D), "M" => go!(hist::M), "N" => go!(hist::N), "AL" => go!(hist::AL), "RS" => go!(hist::RS), "VA" => go!(hist::VA), "IR" => go!(hist::IR), "CA" => go!(hist::CA), "CB" => go!(hist::CB), "Q" => go!(hist::Q), "DM" => go!(hist::DM), "ZB" => go!(hist::ZB), "UN" => go!(hist::UN), "Pair" => go!(hist::Pair<i32>), "Pair2" => go!(hist::Pair2), "Pair3" => go!(hist::Pair3), "GR" => go!(hist::GR<Vec<hist::P2>>), "Z" => go!(hist::Z), "W1" => go!(hist::W1), "W2" => go!(hist::W2), "P1" => go!(hist::P1), "P2" => go!(hist::P2), "P3" => go!(hist::P3), _ => panic!("unknown type") };
    r.map_err(|e| format!("{e:?}"))
}

fn read_tree(root: &Path, rel: &Path, out: &mut std::collections::BTreeMap<String, String>) {
    if let Ok(rd) = std::fs::read_dir(root.join(rel)) {
        for e in rd.flatten() {
            let p = rel.join(e.file_name());
            if e.path().is_dir() { read_tree(root, &p, out); }
            else { out.insert(p.to_string_lossy().into_owned(), std::fs::read_to_string(e.path()).unwrap_or_default()); }
        }
    }
}

/// {"op":"export_history","root":DIR (created, becomes cwd),"env_dir":optional TS_RS_EXPORT_DIR,"steps":[[kind,type,dir?],...],"collect":DIR}
pub fn export_history(req: &Value) -> Value {
    let root = PathBuf::from(req["root"].as_str().unwrap());
    std::fs::create_dir_all(&root).unwrap();
    std::env::set_current_dir(&root).unwrap();
    match req["env_dir"].as_str() { Some(d) => std::env::set_var("TS_RS_EXPORT_DIR", d), None => std::env::remove_var("TS_RS_EXPORT_DIR") }
    let mut results = vec![];
    for st in req["steps"].as_array().unwrap() {
        let kind = st[0].as_str().unwrap().to_string();
        if kind == "hide" || kind == "restore" {
            // fault injection (C17): replace a file by a directory / put it back
            let f = root.join(st[1].as_str().unwrap());
            let bak = f.with_extension("bak");
            if kind == "hide" { let _ = std::fs::rename(&f, &bak); let _ = std::fs::create_dir_all(&f); }
            else { let _ = std::fs::remove_dir_all(&f); let _ = std::fs::rename(&bak, &f); }
            results.push(json!(kind));
            continue;
        }
        if kind == "setenv" {
            // TS_RS_EXPORT_DIR changed while the process runs
            std::env::set_var("TS_RS_EXPORT_DIR", st[1].as_str().unwrap());
            results.push(json!(kind));
            continue;
        }
        if kind == "chdir" {
            // the process changes its working directory between two exports (relative to the root of the history)
            let d = root.join(st[1].as_str().unwrap());
            let _ = std::fs::create_dir_all(&d);
            std::env::set_current_dir(&d).unwrap();
            results.push(json!(kind));
            continue;
        }
        if kind == "write" {
            // a file left behind by an earlier run
            let f = root.join(st[1].as_str().unwrap());
            if let Some(d) = f.parent() { let _ = std::fs::create_dir_all(d); }
            let _ = std::fs::write(&f, st[2].as_str().unwrap());
            results.push(json!(kind));
            continue;
        }
        let ty = st[1].as_str().unwrap().to_string();
        let dir = st.get(2).and_then(|d| d.as_str()).map(|s| s.to_string());
        let r = catch(move || export_step(&kind, &ty, dir.as_deref()));
        results.push(match r { Ok(Ok(())) => json!("ok"), Ok(Err(e)) => json!({"err": e}), Err(p) => json!({"panic": p}) });
    }
    let mut files = std::collections::BTreeMap::new();
    read_tree(&root, Path::new(req["collect"].as_str().unwrap_or(".")), &mut files);
    json!({"results": results, "files": files})
}

// ---------------------------------------------------------------------------------------------------------
// C04 / C15 lexical oracles
fn is_ident_like(s: &str) -> bool {
    let mut it = s.chars();
    match it.next() { None => return false, Some(c) => if !(c.is_alphabetic() || c == '_' || c == '$') { return false; } }
    s.chars().all(|c| c.is_alphanumeric() || c == '_' || c == '$')
}
/// decode a double-quoted TS string literal; None if it is not exactly one well-formed literal
fn ts_unquote(s: &str) -> Option<String> {
    let inner = s.strip_prefix('"')?.strip_suffix('"')?;
    let mut out = String::new();
    let mut it = inner.chars();
    while let Some(c) = it.next() {
        match c {
            '"' | '\n' | '\r' => return None,
            '\\' => match it.next()? { 'n' => out.push('\n'), 'r' => out.push('\r'), '"' => out.push('"'), '\\' => out.push('\\'), _ => return None },
            c => out.push(c),
        }
    }
    Some(out)
}
fn ts_field_name(req: &Value) -> Value {
    let s = req["s"].as_str().unwrap().to_string();
    let s2 = s.clone();
    let actual = catch(move || macrolib::verif_api::raw_name_to_ts_field(s2));
    match actual {
        Err(p) => json!({"panic": p, "agree": false}),
        Ok(a) => {
            let ok = (is_ident_like(&a) && a == s) || ts_unquote(&a).as_deref() == Some(s.as_str());
            json!({"actual": a, "agree": ok, "expected": "the name itself if identifier-like, else one string literal denoting it"})
        }
    }
}
fn parse_docs(req: &Value) -> Value {
    let lines: Vec<String> = req["docs"].as_array().unwrap().iter().map(|v| v.as_str().unwrap().to_string()).collect();
    let attrs: Vec<syn::Attribute> = lines.iter().map(|l| syn::parse_quote!(#[doc = #l])).collect();
    let actual = catch(move || macrolib::verif_api::parse_docs(&attrs).map_err(|e| e.to_string()));
    match actual {
        Err(p) => json!({"panic": p, "agree": false}),
        Ok(Err(e)) => json!({"actual_err": e, "agree": true}),
        Ok(Ok(a)) => {
            let mut ok = if lines.is_empty() { a.is_empty() } else {
                a.starts_with("/**") && a.ends_with("*/\n") && a.find("*/") == Some(a.len() - 3)
            };
            // the full documentation text: every word of every doc attribute appears, in order
            let mut pos = 0usize;
            for w in lines.iter().flat_map(|l| l.split(|c: char| !c.is_alphanumeric()).filter(|w| !w.is_empty()).map(|w| w.to_string()).collect::<Vec<_>>()) {
                match a[pos..].find(&w) { Some(k) => pos += k + w.len(), None => { ok = false; break; } }
            }
            json!({"actual": a, "agree": ok, "expected": "empty, or exactly one block comment: starts with /**, the first */ is the one that ends it, and it contains the text of every doc attribute in order"})
        }
    }
}


// ---------------------------------------------------------------------------------------------------------
// C09 call sites, on really derived types: the property names of the binding are the keys serde_json writes
mod keys {
    use serde::Serialize;
    use ts_rs::TS;
    #[derive(TS, Serialize, Default)]
    #[serde(rename_all = "camelCase")]
    pub struct K1 { pub r#type: i32, pub r#final_state: i32, pub plain_name: i32 }
    #[derive(TS, Serialize, Default)]
    #[serde(rename_all = "camelCase")]
    pub struct K2 { #[ts(type = "string")] pub r#type: i32, #[ts(type = "number")] pub r#final_state: i32, #[ts(type = "number")] pub plain_name: i32 }
    #[derive(TS, Serialize, Default)]
    #[serde(rename_all = "SCREAMING-KEBAB-CASE")]
    pub struct K3 { #[ts(type = "string")] pub r#match: i32, pub other_field: i32, #[serde(rename = "explicit")] pub renamed_one: i32 }
    #[derive(TS, Serialize, Default)]
    pub struct K4 { #[ts(type = "string")] pub r#type: i32, pub r#fn: i32, #[ts(rename = "tsWins")] #[serde(rename = "tsWins")] pub x_y: i32 }
    #[derive(TS, Serialize)]
    #[serde(rename_all = "snake_case", rename_all_fields = "PascalCase")]
    pub enum K5 { FirstVariant { #[ts(type = "string")] r#type: i32, inner_field: i32 }, SecondOne { r#match: i32 } }
    #[derive(TS, Serialize)]
    #[serde(rename_all_fields = "PascalCase")]
    pub enum K8 { #[serde(rename_all = "SCREAMING_SNAKE_CASE")] Own { inner_field: i32 }, Inherits { inner_field: i32 } }
    #[derive(TS, Serialize)]
    pub enum K10 { r#type { a: i32 }, r#match { b: i32 } }
    // internally / adjacently tagged enums with rename_all: the tag VALUE of every kind of variant is the renamed variant name
    #[derive(TS, Serialize)]
    #[serde(tag = "type", rename_all = "snake_case")]
    pub enum K12 { RoadBike { gear_count: i32 }, PushScooter, #[serde(rename = "explicit-name")] CargoVan { load: i32 }, EmptyOne {} }
    #[derive(TS, Serialize)]
    #[serde(tag = "t", content = "c", rename_all = "SCREAMING-KEBAB-CASE")]
    pub enum K13 { KeyPress { key_code: i32 }, MouseMove(i32, i32), Idle }
    // raw identifiers whose own name starts with `r` (and with `r#`-like letters): only the prefix `r#` goes
    #[derive(TS, Serialize, Default)]
    #[serde(rename_all = "PascalCase")]
    pub struct K11 { pub r#ref: i32, pub r#return: i32, #[ts(type = "string")] pub r#raw_ref: i32, pub rr_plain: i32 }
    #[derive(TS, Serialize, Default)]
    #[allow(non_camel_case_types)]
    pub struct r#struct { pub a: i32 }
    #[derive(TS, Serialize, Default)]
    #[serde(rename_all = "kebab-case")]
    pub struct K9 { #[ts(type = "string")] pub created_at: i32, pub event_id: i32, #[ts(type = "string")] pub plain: i32 }
    #[derive(TS, Serialize, Default)]
    #[serde(rename_all = "UPPERCASE")]
    pub struct K6 { #[ts(type = "string")] pub aé: i32, pub r#loop: i32 }
}

/// top-level property names of the first `{ .. }` object type in `ts` (unquoted)
fn ts_object_keys(ts: &str) -> Vec<String> {
    let mut keys = vec![];
    let b: Vec<char> = ts.chars().collect();
    let Some(start) = b.iter().position(|c| *c == '{') else { return keys };
    let (mut depth, mut i, mut at_key) = (0i32, start, false);
    while i < b.len() {
        let c = b[i];
        match c {
            '{' | '(' | '[' | '<' => { depth += 1; if c == '{' && depth == 1 { at_key = true; } i += 1; }
            '}' | ')' | ']' | '>' => { depth -= 1; if depth == 0 { break; } i += 1; }
            ',' if depth == 1 => { at_key = true; i += 1; }
            '"' => {
                let mut j = i + 1; let mut s = String::new();
                while j < b.len() && b[j] != '"' { if b[j] == '\\' { j += 1; } if j < b.len() { s.push(b[j]); } j += 1; }
                if at_key && depth == 1 { keys.push(s); at_key = false; }
                i = j + 1;
            }
            c if c.is_whitespace() => { i += 1; }
            _ => {
                if at_key && depth == 1 {
                    let mut j = i; let mut s = String::new();
                    while j < b.len() && b[j] != ':' && b[j] != '?' && !b[j].is_whitespace() { s.push(b[j]); j += 1; }
                    // a property name written without quotes has to be an identifier
                    if !is_ident_like(&s) { s = format!("<not an identifier, unquoted: {s}>"); }
                    keys.push(s); at_key = false; i = j;
                } else { i += 1; }
            }
        }
    }
    keys
}

fn binding_keys() -> Value {
    use ts_rs::TS;
    fn one<T: TS + serde::Serialize>(name: &str, v: &T, pick: fn(&Value) -> Value, inline: String) -> Value {
        let js = pick(&serde_json::to_value(v).unwrap());
        let mut want: Vec<String> = js.as_object().map(|o| o.keys().cloned().collect()).unwrap_or_default();
        let mut got = ts_object_keys(&inline);
        want.sort(); got.sort();
        json!({"type": name, "binding": inline, "binding_keys": got, "serde_json_keys": want, "agree": got == want})
    }
    let id: fn(&Value) -> Value = |v| v.clone();
    let mut out = vec![
        one("K1", &keys::K1::default(), id, keys::K1::inline()),
        one("K2", &keys::K2::default(), id, keys::K2::inline()),
        one("K3", &keys::K3::default(), id, keys::K3::inline()),
        one("K4", &keys::K4::default(), id, keys::K4::inline()),
        one("K6", &keys::K6::default(), id, keys::K6::inline()),
        one("K9", &keys::K9::default(), id, keys::K9::inline()),
        one("K11", &keys::K11::default(), id, keys::K11::inline()),
    ];
    // tagged enums: the value serde_json writes under the tag key is the string literal the binding gives that arm
    fn tag_value(name: String, js: Value, tag: &str, arm: String) -> Value {
        let want = js.get(tag).and_then(|v| v.as_str()).unwrap_or("<no tag>").to_string();
        let lit = format!("\"{}\": \"{}\"", tag, want);
        json!({"type": name, "binding": arm, "serde_json_tag_value": want, "expected_in_binding": lit, "agree": arm.contains(&lit)})
    }
    {
        let inline = keys::K12::inline();
        let arms: Vec<String> = inline.split(" | ").map(|s| s.to_string()).collect();
        for (k, v) in [keys::K12::RoadBike { gear_count: 0 }, keys::K12::PushScooter, keys::K12::CargoVan { load: 0 }, keys::K12::EmptyOne {}].iter().enumerate() {
            out.push(tag_value(format!("K12 variant {k}"), serde_json::to_value(v).unwrap(), "type", arms.get(k).cloned().unwrap_or_default()));
        }
        let inline = keys::K13::inline();
        let arms: Vec<String> = inline.split(" | ").map(|s| s.to_string()).collect();
        for (k, v) in [keys::K13::KeyPress { key_code: 0 }, keys::K13::MouseMove(0, 0), keys::K13::Idle].iter().enumerate() {
            out.push(tag_value(format!("K13 variant {k}"), serde_json::to_value(v).unwrap(), "t", arms.get(k).cloned().unwrap_or_default()));
        }
    }
    // externally tagged enum: { "variant_name": { fields } }: compare the outer key and the inner keys of each variant
    for (v, k) in [(keys::K5::FirstVariant { r#type: 0, inner_field: 0 }, 0usize), (keys::K5::SecondOne { r#match: 0 }, 1usize)] {
        let js = serde_json::to_value(&v).unwrap();
        let (tag, inner) = js.as_object().unwrap().iter().next().map(|(a, b)| (a.clone(), b.clone())).unwrap();
        let inline = keys::K5::inline();
        let arm = inline.split(" | ").nth(k).unwrap_or("").to_string();
        let outer = ts_object_keys(&arm);
        let inner_ts = arm.find('{').and_then(|p| arm[p + 1..].find('{').map(|q| arm[p + 1 + q..].to_string())).unwrap_or_default();
        let mut got = ts_object_keys(&inner_ts); got.sort();
        let mut want: Vec<String> = inner.as_object().map(|o| o.keys().cloned().collect()).unwrap_or_default(); want.sort();
        out.push(json!({"type": format!("K5 variant {k}"), "binding": arm, "binding_keys": got, "serde_json_keys": want, "outer_key": outer, "serde_tag": tag,
                        "agree": got == want && outer == vec![tag.clone()]}));
    }
    for (v, k) in [(keys::K8::Own { inner_field: 0 }, 0usize), (keys::K8::Inherits { inner_field: 0 }, 1usize)] {
        let js = serde_json::to_value(&v).unwrap();
        let (tag, inner) = js.as_object().unwrap().iter().next().map(|(a, b)| (a.clone(), b.clone())).unwrap();
        let inline = keys::K8::inline();
        let arm = inline.split(" | ").nth(k).unwrap_or("").to_string();
        let outer = ts_object_keys(&arm);
        let inner_ts = arm.find('{').and_then(|p| arm[p + 1..].find('{').map(|q| arm[p + 1 + q..].to_string())).unwrap_or_default();
        let mut got = ts_object_keys(&inner_ts); got.sort();
        let mut want: Vec<String> = inner.as_object().map(|o| o.keys().cloned().collect()).unwrap_or_default(); want.sort();
        out.push(json!({"type": format!("K8 variant {k}"), "binding": arm, "binding_keys": got, "serde_json_keys": want, "outer_key": outer, "serde_tag": tag,
                        "agree": got == want && outer == vec![tag.clone()]}));
    }
    for (v, k) in [(keys::K10::r#type { a: 0 }, 0usize), (keys::K10::r#match { b: 0 }, 1usize)] {
        let js = serde_json::to_value(&v).unwrap();
        let tag = js.as_object().unwrap().keys().next().cloned().unwrap();
        let inline = keys::K10::inline();
        let arm = inline.split(" | ").nth(k).unwrap_or("").to_string();
        let outer = ts_object_keys(&arm);
        out.push(json!({"type": format!("K10 variant {k} (raw identifier)"), "binding": arm, "outer_key": outer, "serde_tag": tag, "agree": outer == vec![tag.clone()]}));
    }
    {
        let name = <keys::r#struct as TS>::name();
        out.push(json!({"type": "struct r#struct (raw identifier as type name)", "binding": <keys::r#struct as TS>::decl(), "name": name, "expected_name": "struct", "agree": name == "struct"}));
    }
    let agree = out.iter().all(|o| o["agree"] == json!(true));
    json!({"cases": out, "agree": agree})
}


// ---------------------------------------------------------------------------------------------------------
// C16 on the real derive entry point: combinations documented as incompatible are diagnosed (Err), valid items expand, no panic
fn derive_outcomes() -> Value {
    let cases: Vec<(&str, bool)> = vec![
        (r#"#[ts(untagged, tag = "t")] enum E { A { x: i32 }, B }"#, true),
        (r#"#[ts(untagged, content = "c")] enum E { A { x: i32 }, B }"#, true),
        (r#"#[ts(untagged, tag = "t", content = "c")] enum E { A { x: i32 }, B }"#, true),
        (r#"#[ts(untagged, tag = "t", content = "c")] enum E { }"#, true),
        (r#"#[ts(content = "c")] enum E { A { x: i32 } }"#, true),
        (r#"#[ts(type = "string", as = "String")] struct S { a: i32 }"#, true),
        (r#"#[ts(type = "string", rename_all = "camelCase")] struct S { a: i32 }"#, true),
        (r#"#[ts(type = "string", tag = "t")] struct S { a: i32 }"#, true),
        (r#"#[ts(as = "String", tag = "t")] struct S { a: i32 }"#, true),
        (r#"#[ts(as = "String", rename_all = "camelCase")] struct S { a: i32 }"#, true),
        (r#"#[ts(tag = "t")] struct S(i32, i32);"#, true),
        (r#"#[ts(rename_all = "camelCase")] struct S(i32);"#, true),
        (r#"#[ts(tag = "t")] struct S;"#, true),
        (r#"#[ts(optional_fields)] struct S(Option<i32>);"#, true),
        (r#"#[ts(no_such_key)] struct S { a: i32 }"#, true),
        (r#"struct S { #[ts(no_such_key)] a: i32 }"#, true),
        (r#"struct S { #[ts(type = "string", as = "String")] a: i32 }"#, true),
        (r#"struct S { #[ts(type = "string", inline)] a: i32 }"#, true),
        (r#"struct S { #[ts(flatten, rename = "x")] a: T }"#, true),
        (r#"struct S { #[ts(flatten, inline)] a: T }"#, true),
        (r#"enum E { #[ts(type = "string", as = "String")] A(i32) }"#, true),
        (r#"enum E { #[ts(type = "string", inline)] A(i32) }"#, true),
        (r#"struct S { a: i32, r#type: String }"#, false),
        (r#"#[ts(rename_all = "camelCase")] struct S { some_field: i32, __: i32, Éa: i32 }"#, false),
        (r#"#[ts(tag = "t", content = "c")] enum E { A { x: i32 }, B(i32), C }"#, false),
        (r#"#[ts(untagged)] enum E { A { x: i32 }, B(i32), C }"#, false),
        (r#"#[ts(tag = "t")] enum E { A { x: i32 }, C }"#, false),
        (r#"struct S<T, const N: usize = 3> { a: [T; N] }"#, false),
        (r#"struct S;"#, false),
        (r#"enum E { }"#, false),
    ];
    let mut out = vec![];
    let mut agree = true;
    for (src, want_err) in cases {
        let s = src.to_string();
        let r = catch(move || {
            let ts: proc_macro2::TokenStream = s.parse().map_err(|e: proc_macro2::LexError| e.to_string())?;
            macrolib::verif_api::derive(ts).map(|_| ()).map_err(|e| e.to_string())
        });
        let (ok, what) = match &r {
            Err(p) => (false, format!("PANIC: {p}")),
            Ok(Err(e)) => (want_err, format!("error: {e}")),
            Ok(Ok(())) => (!want_err, "expands".to_string()),
        };
        if !ok { agree = false; }
        out.push(json!({"item": src, "expected": if want_err { "a compile error" } else { "an expansion" }, "actual": what, "agree": ok}));
    }
    json!({"cases": out, "agree": agree})
}

// ---------------------------------------------------------------------------------------------------------
// C10 on really derived types: a key given both as #[ts(..)] and #[serde(..)] takes the ts value; serde alone is honoured
mod wins {
    use serde::Serialize;
    use ts_rs::TS;
    #[derive(TS, Serialize)]
    #[serde(rename_all = "snake_case")]
    #[ts(rename_all = "camelCase")]
    pub enum V1 {
        #[serde(rename = "wire_name")] #[ts(rename = "tsName")] First,
        #[serde(rename = "only_serde")] Second,
        #[ts(rename = "onlyTs")] Third,
        #[ts(rename_all = "UPPERCASE")] #[serde(rename_all = "kebab-case")] Fourth { some_field: i32 },
        PlainVariant,
    }
    #[derive(TS, Serialize)]
    #[serde(rename = "SerdeName", rename_all = "snake_case")]
    #[ts(rename = "TsName", rename_all = "PascalCase")]
    pub struct S1 { #[serde(rename = "wire")] #[ts(rename = "tsField")] pub a_b: i32, #[serde(rename = "onlySerde")] pub c_d: i32, pub e_f: i32 }
    #[derive(TS, Serialize)]
    #[serde(tag = "serde_tag")]
    #[ts(tag = "tsTag")]
    pub enum T1 { A { x: i32 } }
    // keyword keys and keys ts-rs does not know inside a serde list must not make the rest of the list disappear
    #[derive(TS, Serialize)]
    #[serde(crate = "serde", rename = "FromSerdeAfterCrate", deny_unknown_fields)]
    pub struct S2 { #[serde(rename = "wireField", skip_serializing_if = "Option::is_none")] pub a_b: Option<i32> }
}
fn ts_wins() -> Value {
    use ts_rs::TS;
    let mut out = vec![];
    let mut agree = true;
    let mut chk = |what: &str, text: String, must: Vec<&str>, must_not: Vec<&str>| {
        let ok = must.iter().all(|m| text.contains(m)) && must_not.iter().all(|m| !text.contains(m));
        if !ok { agree = false; }
        out.push(json!({"case": what, "binding": text, "must_contain": must, "must_not_contain": must_not, "agree": ok}));
    };
    chk("enum V1: variant renames", wins::V1::inline(), vec!["\"tsName\"", "\"only_serde\"", "\"onlyTs\"", "SOME_FIELD", "\"plainVariant\""], vec!["wire_name", "some-field", "plain_variant"]);
    chk("struct S1: container and field renames", wins::S1::decl(), vec!["type TsName", "tsField", "onlySerde", "EF"], vec!["SerdeName", "wire:", "e_f"]);
    chk("enum T1: tag", wins::T1::inline(), vec!["\"tsTag\""], vec!["serde_tag"]);
    chk("struct S2: keyword key `crate` and unknown keys in serde lists", wins::S2::decl(), vec!["type FromSerdeAfterCrate", "wireField"], vec!["S2", "a_b"]);
    json!({"cases": out, "agree": agree})
}


// ---------------------------------------------------------------------------------------------------------
// C04 on really derived enums: variant names, tag and content strings appear as string literals in the shape of the representation
mod lits {
    use ts_rs::TS;
    #[derive(TS)]
    pub enum L1 { #[ts(rename = "plain")] A, #[ts(rename = "two words")] B, #[ts(rename = "")] C }
    #[derive(TS)]
    pub enum L1e { #[ts(rename = "va\"r")] A, #[ts(rename = "li\nne")] B, #[ts(rename = "back\\slash")] C }
    #[derive(TS)]
    #[ts(tag = "t", content = "c")]
    pub enum L2 { A { x: i32 }, B(i32), C }
    #[derive(TS)]
    #[ts(tag = "ta\"g", content = "c\\x")]
    pub enum L2e { #[ts(rename = "va\"r")] A { x: i32 }, B(i32) }
    #[derive(TS)]
    #[ts(tag = "kind")]
    pub enum L3 { A { x: i32 }, C }
    #[derive(TS)]
    #[ts(tag = "kind")]
    pub struct L4 { pub x: i32 }
    #[derive(TS)]
    pub enum L5 { A { x: i32 }, B(i32), C }
    #[derive(TS)]
    pub struct FD {
        /// Doc of x
        pub x: i32,
        pub y: i32,
        /// Doc of z
        #[ts(type = "string")]
        pub z: i32,
    }
    #[cfg(not(feature = "no-fragile-witnesses"))]
    #[derive(TS)]
    pub struct FD3 {
        /// joins } & { two objects
        pub x: i32,
        pub y: i32,
    }
    #[derive(TS)]
    pub struct TO { #[ts(type = "{ a: number } & { b: number }")] pub f: i32, pub g: i32 }
    #[cfg(not(feature = "no-fragile-witnesses"))]
    #[derive(TS)]
    pub struct FM { pub k: i32, #[ts(flatten)] pub a: FD3, #[ts(flatten)] pub b: TO }
    // arrays of every small length (std impl in ts-rs/src/lib.rs): a tuple of that many elements, `[]` for none
    #[derive(TS)]
    pub struct AR { pub a: [i32; 0], pub b: [i32; 2], pub c: [String; 1], pub d: Vec<[bool; 0]> }
    #[cfg(not(feature = "no-fragile-witnesses"))]
    #[derive(TS)]
    pub struct FD2 {
        /// uses {{double}} braces and {0} verbatim
        pub x: i32,
        /// also {1} here
        #[ts(type = "string")]
        pub z: i32,
    }
}
fn ts_quote_ref(s: &str) -> String {
    let mut o = String::from("\"");
    for c in s.chars() { match c { '"' => o.push_str("\\\""), '\\' => o.push_str("\\\\"), '\n' => o.push_str("\\n"), '\r' => o.push_str("\\r"), c => o.push(c) } }
    o.push('"'); o
}
fn variant_literals() -> Value {
    use ts_rs::TS;
    let q = ts_quote_ref;
    let mut cases: Vec<(&str, String, String)> = vec![
        ("plain variant names", lits::L1::inline(), format!("{} | {} | {}", q("plain"), q("two words"), q(""))),
        ("variant names that need escaping", lits::L1e::inline(), format!("{} | {} | {}", q("va\"r"), q("li\nne"), q("back\\slash"))),
        ("tag and content strings that need escaping", lits::L2e::inline(), format!("{{ {}: {}, {}: {{ x: number, }} }} | {{ {}: {}, {}: number }}", q("ta\"g"), q("va\"r"), q("c\\x"), q("ta\"g"), q("B"), q("c\\x"))),
        ("adjacently tagged", lits::L2::inline(), "{ \"t\": \"A\", \"c\": { x: number, } } | { \"t\": \"B\", \"c\": number } | { \"t\": \"C\" }".to_string()),
        ("internally tagged", lits::L3::inline(), "{ \"kind\": \"A\", x: number, } | { \"kind\": \"C\" }".to_string()),
        ("tagged struct", lits::L4::inline(), "{ \"kind\": \"L4\", x: number, }".to_string()),
        ("externally tagged", lits::L5::inline(), "{ \"A\": { x: number, } } | { \"B\": number } | \"C\"".to_string()),
        ("arrays are tuples of their length, the empty array included", lits::AR::inline(), "{ a: [], b: [number, number], c: [string], d: Array<[]>, }".to_string()),
        ("a type override that is an intersection of object types is carried verbatim", lits::TO::inline(), "{ f: { a: number } & { b: number }, g: number, }".to_string()),
        ("field documentation sits immediately before its property", lits::FD::inline(), "{ \n/**\n * Doc of x\n */\nx: number, y: number, \n/**\n * Doc of z\n */\nz: string, }".to_string()),
    ];
    #[cfg(not(feature = "no-fragile-witnesses"))]
    {
        cases.push(("field documentation is carried verbatim (braces are not format directives)", lits::FD2::inline(), "{ \n/**\n * uses {{double}} braces and {0} verbatim\n */\nx: number, \n/**\n * also {1} here\n */\nz: string, }".to_string()));
        cases.push(("field documentation containing ` } & { ` is carried verbatim", lits::FD3::inline(), "{ \n/**\n * joins } & { two objects\n */\nx: number, y: number, }".to_string()));
        cases.push(("flattened object types are merged, the members themselves untouched", lits::FM::inline(), "{ k: number, \n/**\n * joins } & { two objects\n */\nx: number, y: number, f: { a: number } & { b: number }, g: number, }".to_string()));
    }
    let mut out = vec![];
    let mut agree = true;
    for (what, got, want) in cases {
        let ok = got == want;
        if !ok { agree = false; }
        out.push(json!({"case": what, "binding": got, "expected": want, "agree": ok, "matches": ok}));
    }
    json!({"cases": out, "agree": agree})
}


// ---------------------------------------------------------------------------------------------------------
// C04 on really derived structs with flattened members: the object type keeps its brackets balanced
mod flat {
    use ts_rs::TS;
    #[derive(TS)] pub enum EA { A1 { x: i32 }, A2 { y: i32 } }
    #[derive(TS)] pub enum EB { B1 { z: i32 }, B2 { w: i32 } }
    #[derive(TS)] pub struct One { #[ts(flatten)] pub a: EA }
    #[derive(TS)] pub struct OnePlus { pub k: i32, #[ts(flatten)] pub a: EA }
    #[derive(TS)] pub struct Two { #[ts(flatten)] pub a: EA, #[ts(flatten)] pub b: EB }
    #[derive(TS)] pub struct Nested { #[ts(flatten)] pub inner: Two }
    // known finding D18: the scan for the outer pair of parentheses also counts parentheses inside documentation
    #[derive(TS)] pub enum DA { A1 { /// see (note
        x: i32 }, A2 { y: i32 } }
    #[derive(TS)] pub struct DTwo { #[ts(flatten)] pub a: DA, #[ts(flatten)] pub b: EB }
    #[derive(TS)] pub struct DNested { #[ts(flatten)] pub inner: DTwo }
}
fn balanced(s: &str) -> bool {
    let mut st: Vec<char> = vec![];
    let mut in_str = false;
    let mut prev = ' ';
    for c in s.chars() {
        if in_str { if c == '"' && prev != '\\' { in_str = false; } prev = c; continue; }
        match c {
            '"' => in_str = true,
            '(' | '{' | '[' => st.push(c),
            ')' => if st.pop() != Some('(') { return false; },
            '}' => if st.pop() != Some('{') { return false; },
            ']' => if st.pop() != Some('[') { return false; },
            _ => {}
        }
        prev = c;
    }
    st.is_empty() && !in_str
}
fn flatten_shapes() -> Value {
    use ts_rs::TS;
    let ea = "{ \"A1\": { x: number, } } | { \"A2\": { y: number, } }";
    let eb = "{ \"B1\": { z: number, } } | { \"B2\": { w: number, } }";
    let cases: Vec<(&str, String, Option<String>)> = vec![
        ("a single flattened enum is the union itself", flat::One::inline(), Some(ea.to_string())),
        ("fields and a flattened enum", flat::OnePlus::inline(), Some(format!("{{ k: number, }} & ({ea})"))),
        ("two flattened enums", flat::Two::inline(), Some(format!("({ea}) & ({eb})"))),
        ("a flattened struct that flattens two enums keeps its brackets balanced", flat::Nested::inline(), Some(format!("({ea}) & ({eb})"))),
    ];
    let mut out = vec![];
    let mut agree = true;
    for (what, got, want) in cases {
        let ok = balanced(&got) && want.as_ref().map_or(true, |w| &got == w);
        if !ok { agree = false; }
        out.push(json!({"case": what, "binding": got, "expected": want.unwrap_or_else(|| "brackets balanced".to_string()), "agree": ok, "matches": ok}));
    }
    // inputs listed in known_findings.json (replayed on every run; `matches` says whether the finding still reproduces, `agree` is
    // not affected: a listed finding is printed as KNOWN-FINDING, it is not raised again)
    let (got, want) = (flat::DNested::inline(), flat::DTwo::inline());
    out.push(json!({"case": "an unbalanced parenthesis inside a field doc of a doubly flattened enum does not change the brackets of the type", "binding": got, "expected": want,
                    "agree": true, "matches": got == want, "listed_in_known_findings": true}));
    json!({"cases": out, "agree": agree})
}


// ---------------------------------------------------------------------------------------------------------
// C13: the text the derive expands an item to (compared across fresh processes: it must not depend on a per-process hash seed)
fn expansion_text(req: &Value) -> Value {
    let src = req["item"].as_str().unwrap_or("struct S { a: A, b: B, c: C, d: D, e: Vec<E>, f: Option<F> }").to_string();
    let r = catch(move || {
        let ts: proc_macro2::TokenStream = src.parse().map_err(|e: proc_macro2::LexError| e.to_string())?;
        macrolib::verif_api::derive(ts).map(|t| t.to_string()).map_err(|e| e.to_string())
    });
    match r { Ok(Ok(t)) => json!({"expansion": t}), Ok(Err(e)) => json!({"error": e}), Err(p) => json!({"panic": p}) }
}
