//! Conformance smoke test of the TRUSTED std contracts (spec/std_*.rs): an executable twin of each defining spec function is
//! compared with the real std function on generated inputs. Supporting evidence about assumptions; never part of a verdict.
use serde_json::{json, Value};
use std::path::{Component, Path, PathBuf};

struct Rng(u64);
impl Rng {
    fn next(&mut self) -> u64 { self.0 ^= self.0 << 13; self.0 ^= self.0 >> 7; self.0 ^= self.0 << 17; self.0 }
    fn below(&mut self, n: usize) -> usize { (self.next() % n as u64) as usize }
    fn string(&mut self, alphabet: &[char], maxlen: usize) -> String {
        let n = self.below(maxlen + 1);
        (0..n).map(|_| alphabet[self.below(alphabet.len())]).collect()
    }
}

// ---- executable twins of the spec functions ----
fn ascii_lower(c: char) -> char { if ('A'..='Z').contains(&c) { ((c as u8) + 32) as char } else { c } }
fn ascii_upper(c: char) -> char { if ('a'..='z').contains(&c) { ((c as u8) - 32) as char } else { c } }
fn spec_replace_char(s: &[char], from: char, to: &[char]) -> Vec<char> {
    let mut out = vec![];
    for &c in s { if c == from { out.extend_from_slice(to) } else { out.push(c) } }
    out
}
fn trim_start_char(s: &[char], c: char) -> &[char] { let mut s = s; while !s.is_empty() && s[0] == c { s = &s[1..]; } s }
fn trim_end_char(s: &[char], c: char) -> &[char] { let mut s = s; while !s.is_empty() && s[s.len() - 1] == c { s = &s[..s.len() - 1]; } s }
fn starts_with(s: &[char], p: &[char]) -> bool { p.len() <= s.len() && &s[..p.len()] == p }
fn ends_with(s: &[char], p: &[char]) -> bool { p.len() <= s.len() && &s[s.len() - p.len()..] == p }
fn trim_start_str<'a>(s: &'a [char], p: &[char]) -> &'a [char] { let mut s = s; while !p.is_empty() && starts_with(s, p) { s = &s[p.len()..]; } s }
fn trim_end_str<'a>(s: &'a [char], p: &[char]) -> &'a [char] { let mut s = s; while !p.is_empty() && ends_with(s, p) { s = &s[..s.len() - p.len()]; } s }
fn chars(s: &str) -> Vec<char> { s.chars().collect() }
fn text(s: &[char]) -> String { s.iter().collect() }

fn norm_step<'a>(acc: Option<Vec<Component<'a>>>, c: Component<'a>) -> Option<Vec<Component<'a>>> {
    let mut out = acc?;
    match c {
        Component::CurDir => {}
        Component::ParentDir => match out.last() { Some(Component::Normal(_)) => { out.pop(); } _ => return None },
        c => out.push(c),
    }
    Some(out)
}
fn join_comps<'a>(a: &[Component<'a>], b: &[Component<'a>]) -> Vec<Component<'a>> {
    if !b.is_empty() && b[0] == Component::RootDir { b.to_vec() }
    else if a.is_empty() { b.to_vec() }
    else if !b.is_empty() && b[0] == Component::CurDir { [a, &b[1..]].concat() }
    else { [a, b].concat() }
}
fn render_rel(s: &[Component]) -> String {
    s.iter().map(|c| match c { Component::ParentDir => "..".to_string(), Component::CurDir => ".".to_string(),
        Component::Normal(o) => o.to_string_lossy().into_owned(), _ => "/".to_string() }).collect::<Vec<_>>().join("/")
}

fn cstr(c: &[Component]) -> Vec<String> { c.iter().map(|x| format!("{x:?}")).collect() }
fn pcs(p: &Path) -> Vec<String> { p.components().map(|x| format!("{x:?}")).collect() }

pub fn run(seed: u64, n: usize) -> Value {
    let mut rng = Rng(seed.wrapping_mul(0x9E3779B97F4A7C15) | 1);
    let alpha: Vec<char> = "aB_1É- .\n\"\\/*ts".chars().collect();
    let mut results = vec![];
    let mut fail = |name: &str, input: String, got: String, want: String, results: &mut Vec<Value>| {
        results.push(json!({"contract": name, "input": input, "std": got, "spec": want}));
    };
    let mut counts = std::collections::BTreeMap::<&str, usize>::new();
    for _k in 0..n {
        let s = rng.string(&alpha, 8);
        let sc = chars(&s);
        let p = rng.string(&['t', 's', '.', 'r', '#', '\n'], 2);
        let pc = chars(&p);
        let c = alpha[rng.below(alpha.len())];
        macro_rules! chk { ($name:expr, $std:expr, $spec:expr) => {{ *counts.entry($name).or_default() += 1; let a = $std; let b = $spec; if a != b { fail($name, format!("{s:?} / {p:?} / {c:?}"), format!("{a:?}"), format!("{b:?}"), &mut results); } }}; }
        chk!("str::replace(char,&str)", s.replace(c, &p), text(&spec_replace_char(&sc, c, &pc)));
        chk!("str::trim_matches(char)", s.trim_matches(c).to_string(), text(trim_end_char(trim_start_char(&sc, c), c)));
        chk!("str::trim_start_matches(&str)", s.trim_start_matches(p.as_str()).to_string(), text(trim_start_str(&sc, &pc)));
        chk!("str::trim_end_matches(&str)", s.trim_end_matches(p.as_str()).to_string(), text(trim_end_str(&sc, &pc)));
        chk!("str::starts_with(&str)", s.starts_with(p.as_str()), starts_with(&sc, &pc));
        chk!("str::ends_with(&str)", s.ends_with(p.as_str()), ends_with(&sc, &pc));
        chk!("str::ends_with(char)", s.ends_with(c), !sc.is_empty() && sc[sc.len() - 1] == c);
        chk!("str::contains(char)", s.contains(c), sc.contains(&c));
        chk!("str::strip_suffix(&str)", s.strip_suffix(p.as_str()).map(|x| x.to_string()), if ends_with(&sc, &pc) { Some(text(&sc[..sc.len() - pc.len()])) } else { None });
        chk!("str::strip_prefix(&str)", s.strip_prefix(p.as_str()).map(|x| x.to_string()), if starts_with(&sc, &pc) { Some(text(&sc[pc.len()..])) } else { None });
        chk!("str::to_ascii_lowercase", s.to_ascii_lowercase(), sc.iter().map(|&x| ascii_lower(x)).collect::<String>());
        chk!("str::to_ascii_uppercase", s.to_ascii_uppercase(), sc.iter().map(|&x| ascii_upper(x)).collect::<String>());
        chk!("char::is_uppercase on ASCII", if c.is_ascii() { c.is_uppercase() } else { false }, if c.is_ascii() { ('A'..='Z').contains(&c) } else { false });
        chk!("char::is_alphanumeric on ASCII", if c.is_ascii() { c.is_alphanumeric() } else { false }, if c.is_ascii() { c.is_ascii_alphanumeric() } else { false });
        chk!("char::is_numeric on ASCII", if c.is_ascii() { c.is_numeric() } else { false }, if c.is_ascii() { c.is_ascii_digit() } else { false });
        chk!("char_indices: offset 0 iff first", s.char_indices().enumerate().all(|(k, (off, _))| (off == 0) == (k == 0)), true);
        chk!("str[..1]/[1..] defined iff non-empty ASCII head", std::panic::catch_unwind(|| { let _ = (&s[..1], &s[1..]); }).is_ok(), !sc.is_empty() && sc[0].is_ascii());
        if !sc.is_empty() && sc[0].is_ascii() { chk!("str[..1] + str[1..] value", format!("{}|{}", &s[..1], &s[1..]), format!("{}|{}", text(&sc[..1]), text(&sc[1..]))); }
        chk!("str::split: at least one piece", !p.is_empty() && s.split(p.as_str()).count() == 0, false);
        chk!("format!/Display of str", format!("<{}>", s.as_str()), format!("<{s}>"));
        chk!("String + &str", s.clone() + &p, format!("{s}{p}"));
        chk!("String::from(&str)", String::from(s.as_str()), s.clone());
        chk!("&str < &str total order", { let (a, b) = (s.as_str(), p.as_str()); (a < b) as u8 + (b < a) as u8 + (a == b) as u8 }, 1u8);
        // iterator adapters vs the shim specs
        let flags: Vec<bool> = sc.iter().map(|x| x.is_ascii()).collect();
        chk!("Iterator::filter", sc.iter().filter(|x| x.is_ascii()).cloned().collect::<Vec<_>>(), sc.iter().zip(&flags).filter(|(_, f)| **f).map(|(x, _)| *x).collect::<Vec<_>>());
        let outs: Vec<Option<u32>> = sc.iter().map(|x| x.to_digit(10)).collect();
        chk!("Iterator::flat_map(Option)", sc.iter().flat_map(|x| x.to_digit(10)).collect::<Vec<_>>(), outs.iter().flatten().cloned().collect::<Vec<_>>());
        chk!("Iterator::map_while", sc.iter().map_while(|x| x.to_digit(10)).collect::<Vec<_>>(), outs.iter().take_while(|o| o.is_some()).map(|o| o.unwrap()).collect::<Vec<_>>());
        chk!("Iterator::fold", sc.iter().fold(0u64, |a, x| a.wrapping_mul(31).wrapping_add(*x as u64)), { let mut a = 0u64; for x in &sc { a = a.wrapping_mul(31).wrapping_add(*x as u64); } a });
        chk!("Iterator::all", sc.iter().all(|x| x.is_ascii()), flags.iter().all(|f| *f));
        chk!("Iterator::last / nth", (sc.iter().last().cloned(), sc.iter().nth(1).cloned()), (sc.last().cloned(), sc.get(1).cloned()));
        // BTreeSet iteration: ascending, each element once
        let set: std::collections::BTreeSet<&str> = [s.as_str(), p.as_str(), "m"].into_iter().collect();
        let listing: Vec<&str> = set.iter().cloned().collect();
        chk!("BTreeSet::iter ascending listing", listing.windows(2).all(|w| w[0] < w[1]) && listing.len() == set.len(), true);
        // ---- contracts added later: inner slice, byte length, trim, HashSet::from, write!/format! shims, Display of references ----
        if sc.len() >= 2 && sc[0].is_ascii() && sc[sc.len() - 1].is_ascii() {
            chk!("str[1..len-1] (first and last char one byte)", s[1..s.len() - 1].to_string(), text(&sc[1..sc.len() - 1]));
        }
        chk!("byte length >= char count", s.len() >= sc.len(), true);
        chk!("str::trim is a function of the text (idempotent, a sub-slice)", { let t = s.trim(); t.trim() == t && s.contains(t) }, true);
        chk!("HashSet::from(array)", { let h = std::collections::HashSet::from([s.clone(), p.clone()]); let mut v: Vec<_> = h.into_iter().collect(); v.sort(); v }, { let mut v = vec![s.clone(), p.clone()]; v.sort(); v.dedup(); v });
        {
            use std::fmt::Write as _;
            let mut w = String::from("x");
            write!(w, "a{}b", s).unwrap(); writeln!(w, "{p}").unwrap(); writeln!(w).unwrap(); write!(w, "{{}}").unwrap();
            chk!("write!/writeln! into a String append the pieces", w, format!("xa{s}b{p}\n\n{{}}"));
            let (rs, rrs): (&str, &&str) = (s.as_str(), &s.as_str());
            chk!("format! with several placeholders; Display of &&str / &&String", format!("{{ \"{}\": {} }} & {}{}", s, p, rrs, &&s), ["{ \"", rs, "\": ", p.as_str(), " } & ", rs, rs].concat());
        }
        // ---- the disk model of unit registry (File::create / OpenOptions / write_all / seek / read_to_string) ----
        if _k % 97 == 0 {
            use std::io::{Read, Seek, SeekFrom, Write};
            let dir = std::env::temp_dir().join(format!("vx_conf_{}_{}", std::process::id(), _k));
            let _ = std::fs::create_dir_all(&dir);
            let f = dir.join("f.txt");
            let old: Vec<u8> = format!("{s}{p}0123456789").into_bytes();
            std::fs::write(&f, &old).unwrap();
            // OpenOptions read+write: neither creates nor truncates; write_all overwrites at the cursor; seek(Start) sets it
            let mut h = std::fs::OpenOptions::new().read(true).write(true).open(&f).unwrap();
            let mut txt = String::new();
            let all_utf8 = h.read_to_string(&mut txt).is_ok();
            chk!("read_to_string from the start reads the whole file", all_utf8 && txt.as_bytes() == &old[..], true);
            let pos = rng.below(old.len() + 1);
            let buf = p.as_bytes().to_vec();
            h.seek(SeekFrom::Start(pos as u64)).unwrap();
            h.write_all(&buf).unwrap();
            drop(h);
            let mut want = old[..pos].to_vec(); want.extend_from_slice(&buf); if pos + buf.len() <= old.len() { want.extend_from_slice(&old[pos + buf.len()..]); }
            chk!("write_all at the cursor overwrites, keeps the tail", std::fs::read(&f).unwrap(), want);
            chk!("OpenOptions read+write does not create", std::fs::OpenOptions::new().read(true).write(true).open(dir.join("absent")).is_err(), true);
            // File::create truncates
            let mut c = std::fs::File::create(&f).unwrap();
            c.write_all(s.as_bytes()).unwrap(); drop(c);
            chk!("File::create truncates, write_all from 0", std::fs::read(&f).unwrap(), s.as_bytes().to_vec());
            let _ = std::fs::remove_dir_all(&dir);
        }
        // ---- paths (unix) ----
        let words = ["a", "b.ts", "..", ".", "c d", "x.ts.ts", ".h"];
        let mk = |rng: &mut Rng| -> String { let k = rng.below(4); let mut v: Vec<&str> = (0..k).map(|_| words[rng.below(words.len())]).collect(); if rng.below(4) == 0 { v.insert(0, ""); } v.join("/") };
        let pa = mk(&mut rng); let pb = mk(&mut rng);
        let (a, b) = (Path::new(&pa), Path::new(&pb));
        let ca: Vec<Component> = a.components().collect();
        let cb: Vec<Component> = b.components().collect();
        macro_rules! pchk { ($name:expr, $std:expr, $spec:expr) => {{ *counts.entry($name).or_default() += 1; let x = $std; let y = $spec; if x != y { fail($name, format!("{pa:?} / {pb:?}"), format!("{x:?}"), format!("{y:?}"), &mut results); } }}; }
        pchk!("components: unix shape", ca.iter().enumerate().all(|(k, c)| !matches!(c, Component::Prefix(_)) && (k == 0 || !matches!(c, Component::RootDir | Component::CurDir))), true);
        pchk!("Path::join", pcs(&a.join(b)), cstr(&join_comps(&ca, &cb)));
        pchk!("Path::parent", a.parent().map(|x| pcs(x)), if ca.is_empty() || matches!(ca.last(), Some(Component::RootDir)) { None } else { Some(cstr(&ca[..ca.len() - 1])) });
        pchk!("Path::to_owned / to_path_buf", pcs(&a.to_path_buf()), cstr(&ca));
        if ca.iter().all(|c| matches!(c, Component::Normal(_) | Component::ParentDir)) {
            pchk!("to_string_lossy of a path collected from components", ca.iter().map(|c| c.as_os_str()).collect::<PathBuf>().to_string_lossy().into_owned(), render_rel(&ca));
            pchk!("rendering parses back", pcs(Path::new(&render_rel(&ca))), cstr(&ca));
            pchk!("collect::<PathBuf>() of as_os_str", pcs(&ca.iter().map(|c| c.as_os_str()).collect::<PathBuf>()), cstr(&ca));
        }
        if let Some(n) = ca.iter().try_fold(Some(vec![]), |acc, c| Some(norm_step(acc, *c))).flatten() {
            if !n.is_empty() && n[0] == Component::RootDir {
                pchk!("collect::<PathBuf>() of canonical components", pcs(&n.iter().collect::<PathBuf>()), cstr(&n));
            }
        }
        pchk!("PathBuf == is component-wise", PathBuf::from(&pa) == PathBuf::from(&pb), ca == cb);
    }
    json!({"seed": seed, "cases_per_contract": n, "contracts_checked": counts.len(), "evaluations": counts.values().sum::<usize>(), "mismatches": results.len(),
           "first_mismatches": results.into_iter().take(5).collect::<Vec<_>>(), "contracts": counts.keys().collect::<Vec<_>>()})
}
