//! replay: runs one recorded input (or a batch from stdin) against the REAL code of /repo.
//! Each request is one JSON line {"op": ..., ...}; each answer one JSON line {"actual":..,"expected":..,"agree":bool,"panic":..}.
use std::io::{BufRead, Write};
use std::panic;

#[allow(dead_code, unused)]
mod serde_case {
    include!(concat!(env!("OUT_DIR"), "/serde_case.rs"));
}

use macrolib::verif_api as m;
use serde_json::{json, Value};

fn infl(name: &str) -> Option<(m::Inflection, serde_case::RenameRule)> {
    use m::Inflection as I;
    use serde_case::RenameRule as R;
    Some(match name {
        "lowercase" => (I::Lower, R::LowerCase),
        "UPPERCASE" => (I::Upper, R::UpperCase),
        "camelCase" => (I::Camel, R::CamelCase),
        "snake_case" => (I::Snake, R::SnakeCase),
        "PascalCase" => (I::Pascal, R::PascalCase),
        "SCREAMING_SNAKE_CASE" => (I::ScreamingSnake, R::ScreamingSnakeCase),
        "kebab-case" => (I::Kebab, R::KebabCase),
        "SCREAMING-KEBAB-CASE" => (I::ScreamingKebab, R::ScreamingKebabCase),
        _ => return None,
    })
}

fn catch<T>(f: impl FnOnce() -> T + panic::UnwindSafe) -> Result<T, String> {
    panic::catch_unwind(f).map_err(|e| {
        if let Some(s) = e.downcast_ref::<String>() { s.clone() }
        else if let Some(s) = e.downcast_ref::<&str>() { s.to_string() }
        else { "panic".to_string() }
    })
}

mod ops;
mod conformance;
mod equiv;

fn main() {
    panic::set_hook(Box::new(|_| {}));
    let stdin = std::io::stdin();
    let out = std::io::stdout();
    let args: Vec<String> = std::env::args().collect();
    let handle = |line: &str| -> Value {
        let req: Value = match serde_json::from_str(line) { Ok(v) => v, Err(e) => return json!({"error": e.to_string()}) };
        ops::dispatch(&req)
    };
    if args.len() > 1 {
        println!("{}", handle(&args[1]));
        return;
    }
    for line in stdin.lock().lines() {
        let line = line.unwrap();
        if line.trim().is_empty() { continue; }
        let v = handle(&line);
        let mut o = out.lock();
        writeln!(o, "{}", v).unwrap();
    }
}
