//! Compile probe (bounded stand-in for the token-level generics handling of the derive: generate_impl_block_header,
//! generate_where_clause, used_type_params): valid items whose expansion has to compile. Built on demand by driver/natives.py.
#![allow(dead_code)]
use ts_rs::TS;

#[derive(TS)] pub struct ConstDefault<const N: usize = 3> { a: [i32; N] }
#[derive(TS)] pub struct TypeDefault<T = i32> { a: T }
#[derive(TS)] pub struct TupleWhere<T>(Vec<T>) where T: Clone;
#[derive(TS)] pub struct NamedWhere<T> where T: Clone { a: Option<T> }
#[derive(TS)] pub struct NamedWhereComma<T, U> where T: Clone, U: Clone, { a: T, b: U }
#[derive(TS)] pub enum EnumWhere<T> where T: Clone { A(T), B { x: Vec<T> } }
#[derive(TS)] pub struct Qualified<T> { v: std::vec::Vec<T>, o: std::option::Option<T> }
#[derive(TS)] pub enum QualifiedEnum<K, V> { A(::std::boxed::Box<K>), B(std::collections::HashMap<String, (K, self::inner::Wrapper<V>)>) }
pub mod inner { use ts_rs::TS; #[derive(TS)] pub struct Wrapper<T> { pub t: T } }
#[derive(TS)] pub struct Lifetimes<'a, T: Clone> { a: &'a str, b: std::borrow::Cow<'a, str>, c: T }
#[derive(TS)] pub struct Bounded<T: Clone, const N: usize> { a: [T; N] }
#[derive(TS)] #[ts(concrete(T = i32))] pub struct Concrete<T> { a: T }
#[derive(TS)] #[ts(bound = "T: TS")] pub struct ExplicitBound<T> { a: T }
#[derive(TS)] pub struct Nested<T> { a: Vec<Option<(T, Box<T>)>> }
pub mod shapes;
