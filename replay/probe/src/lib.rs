//! Compile probe (bounded stand-in for the token-level generics handling of the derive: generate_impl_block_header,
//! generate_where_clause, used_type_params): valid items whose expansion has to compile. Built on demand by driver/natives.py.
#![allow(dead_code)]
use ts_rs::TS;

#[derive(TS)] pub struct ConstDefault<const N: usize = 3> { a: [i32; N] }
#[derive(TS)] pub struct TypeDefault<T = i32> { a: T }
#[derive(TS)] pub struct TupleWhere<T>(Vec<T>) where T: Clone;
#[derive(TS)] pub struct NamedWhere<T> where T: Clone { a: Option<T> }
#[derive(TS)] pub struct NamedWhereComma<T, U> where T: Clone, U: Clone, { a: T, b: U }
#[derive(TS)] pub enum EnumWhere<T> where T: Clone { A(T), B { x: Vec<T> } }
#[derive(TS)] pub struct Qualified<T> { v: std::vec::Vec<T>, o: std::option::Option<T> }
#[derive(TS)] pub enum QualifiedEnum<K, V> { A(::std::boxed::Box<K>), B(std::collections::HashMap<String, (K, self::inner::Wrapper<V>)>) }
pub mod inner { use ts_rs::TS; #[derive(TS)] pub struct Wrapper<T> { pub t: T } }
#[derive(TS)] pub struct Lifetimes<'a, T: Clone> { a: &'a str, b: std::borrow::Cow<'a, str>, c: T }
#[derive(TS)] pub struct Bounded<T: Clone, const N: usize> { a: [T; N] }
#[derive(TS)] #[ts(concrete(T = i32))] pub struct Concrete<T> { a: T }
#[derive(TS)] #[ts(bound = "T: TS")] pub struct ExplicitBound<T> { a: T }
#[derive(TS)] pub struct Nested<T> { a: Vec<Option<(T, Box<T>)>> }
// `_` in `#[ts(as = "..")]` stands for the type of the field, wherever it is written (replace_underscore walks syn::Type: outside R17)
pub trait Tr { type Out; }
impl Tr for String { type Out = i32; }
pub trait Via<T> { type Out; }
pub struct Sel;
impl Via<i32> for Sel { type Out = String; }
impl Via<String> for Sel { type Out = Vec<i32>; }
pub mod m { pub struct W<T>(pub T); impl<T> super::Via<T> for W<T> { type Out = T; } pub mod n { pub type Alias<T> = Option<T>; } }
#[derive(TS)] pub struct InferOption { #[ts(optional, as = "Option<_>")] a: bool, #[ts(as = "Option<_>")] b: String }
#[derive(TS)] pub struct InferQualifiedSelf { #[ts(as = "<_ as Tr>::Out")] a: String }
#[derive(TS)] pub struct InferTraitArg { #[ts(as = "<Sel as Via<_>>::Out")] a: i32, #[ts(as = "<Sel as Via<_>>::Out")] b: String, #[ts(as = "Option<<Sel as Via<_>>::Out>")] c: i32 }
#[derive(TS)] pub struct InferNested { #[ts(as = "Vec<Option<(_, std::boxed::Box<_>)>>")] a: i32, #[ts(as = "[_; 2]")] b: i32, #[ts(as = "m::n::Alias<_>")] c: String }
#[derive(TS)] pub struct InferInPathPrefix { #[ts(as = "<m::W<_> as Via<_>>::Out")] a: i32 }
#[derive(TS)] pub enum InferVariant { A(#[ts(as = "Option<_>")] i32), B { #[ts(as = "<Sel as Via<_>>::Out")] x: String } }
pub mod shapes;
