fn main() {
    // serde_derive's own case.rs (version from /repo/Cargo.lock) is compiled into the replay program as the oracle for C09.
    // Only change: inner doc comments `//!` become `//` so that the file can be include!d inside a module.
    let p = std::env::var("VERIF_SERDE_CASE").expect("VERIF_SERDE_CASE");
    let src = std::fs::read_to_string(&p).unwrap();
    let src: String = src.lines().map(|l| if l.starts_with("//!") { format!("//{}\n", &l[3..]) } else { format!("{l}\n") }).collect();
    let out = std::env::var("OUT_DIR").unwrap();
    std::fs::write(format!("{out}/serde_case.rs"), src).unwrap();
    println!("cargo:rerun-if-env-changed=VERIF_SERDE_CASE");
    println!("cargo:rerun-if-changed={p}");
}
