#!/usr/bin/env python3
"""benign_check.py <dir of *.diff>: behaviour-preserving edits must never produce a VIOLATION (exit 1); exit 2 (undecided) is tolerated."""
import json, os, subprocess, sys
d = sys.argv[1]
man = json.load(open('/verif/MANIFEST.json'))
props = [c['property_id'] for c in man['checks']]
bad = 0
for f in sorted(os.listdir(d)):
    if not f.endswith('.diff'):
        continue
    p = subprocess.run(['git', '-C', '/repo', 'apply', os.path.join(d, f)], capture_output=True, text=True)
    if p.returncode:
        print(f, 'does not apply'); continue
    res = {}
    try:
        for pid in props:
            r = subprocess.run(['bin/check', pid], cwd='/verif', capture_output=True, text=True)
            res[pid] = r.returncode
            if r.returncode == 1:
                bad += 1
                print('  FALSE ALARM?', f, pid, [l[:200] for l in r.stdout.splitlines() if l.startswith('VIOLATION')][:2])
            elif r.returncode == 2:
                print('  undecided', f, pid, [l[:230] for l in r.stdout.splitlines() if l.startswith('UNDECIDED')][:1])
    finally:
        subprocess.run(['git', '-C', '/repo', 'checkout', '--', '.'])
    print(f, {k: v for k, v in res.items() if v})
print('violations on benign edits:', bad)
# evidence files written while a change was applied are not evidence about the tree: restore the committed ones
import subprocess as _sp
_sp.run(['git', '-C', '/verif', 'checkout', '--', 'evidence'])
