#!/usr/bin/env python3
"""benign_check.py <dir of *.diff>: behaviour-preserving edits must never produce a VIOLATION (exit 1); exit 2 (undecided) is tolerated."""
import json, os, subprocess, sys
d = sys.argv[1]
# optional: `benign_check.py DIR K N` runs every N-th patch starting at K against a scratch checkout named by VERIF_REPO (with
# VERIF_WORK / VERIF_EVID set), so that several shards can run side by side without touching /repo or the committed evidence
shard = (int(sys.argv[2]), int(sys.argv[3])) if len(sys.argv) > 3 else None
REPO = os.environ.get('VERIF_REPO', '/repo')
man = json.load(open('/verif/MANIFEST.json'))
props = [c['property_id'] for c in man['checks']]
# a patch can only change the verdict of checks whose units lift text from a file it touches: run just those
import re, glob
units = json.load(open('/verif/units.json'))
def _files_of(tpl):
    txt = open(os.path.join('/verif', tpl)).read()
    for fr in re.findall(r'(?m)^//@fragment (\w+)', txt):
        txt += open(f'/verif/units/frag/{fr}.vrs').read()
    return set(re.findall(r'\bfile=(\S+)', txt))
unit_files = {u: _files_of(c['template']) for u, c in units.items()}
def props_touched(diff_path):
    touched = set(re.findall(r'(?m)^\+\+\+ b/(\S+)', open(diff_path).read()))
    us = [u for u, fs in unit_files.items() if fs & touched]
    ps = {p for u in us for p in units[u]['properties'] if p in props}
    # the registered bounded stand-ins run the whole derive / the whole export path: any source change can reach them
    ps |= {p for c in units.values() for b in c.get('bounded_standins', []) for p in b['properties'] if p in props}
    return sorted(ps), us
bad = 0
allf = sorted(x for x in os.listdir(d) if x.endswith('.diff'))
if shard:
    allf = allf[shard[0]::shard[1]]
for f in allf:
    p = subprocess.run(['git', '-C', REPO, 'apply', os.path.join(d, f)], capture_output=True, text=True)
    if p.returncode:
        print(f, 'does not apply'); continue
    res = {}
    try:
        run_props, touched_units = props_touched(os.path.join(d, f))
        for pid in run_props:
            r = subprocess.run(['bin/check', pid], cwd='/verif', capture_output=True, text=True)
            res[pid] = r.returncode
            if r.returncode == 1:
                bad += 1
                print('  FALSE ALARM?', f, pid, [l[:200] for l in r.stdout.splitlines() if l.startswith('VIOLATION')][:2])
            elif r.returncode == 2:
                print('  undecided', f, pid, [l[:230] for l in r.stdout.splitlines() if l.startswith('UNDECIDED')][:1])
    finally:
        subprocess.run(['git', '-C', REPO, 'checkout', '--', '.'])
    print(f, {k: v for k, v in res.items() if v}, 'checked', run_props)
print('violations on benign edits:', bad)
# evidence files written while a change was applied are not evidence about the tree: restore the committed ones
import subprocess as _sp
if 'VERIF_EVID' not in os.environ:
    _sp.run(['git', '-C', '/verif', 'checkout', '--', 'evidence'])
