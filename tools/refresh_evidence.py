#!/usr/bin/env python3
"""Re-run every claimed check (quick tier) on the current, unmodified /repo tree and validate the evidence files. Run before committing."""
import json, subprocess, sys
st = subprocess.run(['git', '-C', '/repo', 'status', '--porcelain', '--untracked-files=no'], capture_output=True, text=True).stdout.strip()
if st:
    print('refusing: /repo has uncommitted changes:\n' + st); sys.exit(1)
man = json.load(open('/verif/MANIFEST.json'))
bad = 0
for c in man['checks']:
    p = c['property_id']
    r = subprocess.run(['bin/check', p], cwd='/verif', capture_output=True, text=True)
    e = json.load(open(f'/verif/evidence/{p}.json'))
    ok = r.returncode == 0 and e['coverage']['obligations'] == e['coverage']['discharged'] and e.get('violations', 0) == 0
    print(p, 'exit', r.returncode, 'obligations', e['coverage']['obligations'], 'discharged', e['coverage']['discharged'], 'OK' if ok else 'PROBLEM')
    bad += 0 if ok else 1
try:
    import jsonschema
    sch = json.load(open('/root/.vp/EVIDENCE.schema.json'))
    for c in man['checks']:
        jsonschema.validate(json.load(open('/verif/' + c['evidence_file'])), sch)
    jsonschema.validate(man, json.load(open('/root/.vp/MANIFEST.schema.json')))
    print('schemas valid')
except ImportError:
    print('(jsonschema not importable with this python; use python3-vt)')
sys.exit(1 if bad else 0)
