#!/usr/bin/env python3
"""Writes MANIFEST.json from the table below (kept in one place so that units.json, DESIGN.md and the manifest agree)."""
import json, os
HERE = os.path.dirname(os.path.dirname(os.path.abspath(__file__)))
TECH = 'contract-based deductive verification: Verus discharges contracts spliced onto functions lifted mechanically from /repo on every run'
CLAIMS = {
 'C04': dict(text='Lexical kernel only: property names produced by raw_name_to_ts_field are identifier-like or correctly quoted/escaped string literals for every string; doc blocks are exactly one comment; the file layout is notice, imports, docs, `export` declaration, newline; the import block generate_imports writes is one `import type { A, B } from "spec";` line per specifier (unit gen_imports); the code the derive emits for enum variants and the tag property (13 templates, lifted as functions of their interpolations) produces exactly quote + name + quote in the shape of each representation, which is the literal of the name for every string that needs no escaping (known finding D12 otherwise). Proved for all inputs by Verus on the lifted real text.',
             note='Not decided: that decl() itself parses as TypeScript as a whole; the wrapper templates with repetitions (joins of fields / flattened members / variants) are decided by registered bounded stand-ins (op:variant_literals, op:flatten_shapes), not by proof; the `format` feature. Known finding D18: the run-time scan for the outer pair of parentheses of a single flattened member also counts parentheses inside documentation. Trusted: std string contracts, Unicode alphanumerics treated as TS identifier characters.'),
 'C05': dict(text='Histories and inputs: merge() is proved to be sorted insertion of the whole new declaration (unit merge) plus the ascending rendering of the union of both import headers, each name once (unit merge_imports); the registry logic of export_and_merge is proved to skip already-exported types, and over a ghost disk model: the first write of a process leaves exactly the generated text in the file, a later write replaces everything after the notice by merge(old file, new text), no other file changes. Unbounded in file size and number of declarations.',
             note='Not decided: thread interleavings (the Mutex argument is dropped by rewrite R6); the closure of merge() that parses an import line back (bounded stand-in: five export histories); declarations containing blank lines or the words `export type ` are outside the well-formedness hypothesis (known finding D7). Trusted: std string/collection contracts, the disk model of File::create / OpenOptions / write_all / read_to_string / seek (spec/std_fs_model.rs), no concurrent writer.'),
 'C06': dict(text='Spelling independence: every export entry point reaches export_to with the canonical form norm(cwd ++ dir ++ output_path) of the target, so the registry key (and file) does not depend on how the directory is spelled or which entry point is used. Proved as call-site preconditions; export_all / export_all_to / export_all_into / Visit::visit hand the configured resp. the given directory down to export_into (token contracts, unit recursion).',
             note='Not decided: independence from call order and from stale files as directory contents (needs a file-system model). Trusted: std::path contracts (unix), fixed working directory.'),
 'C08': dict(text='For every pair of paths: absolute() computes norm(cwd ++ p); diff_paths() returns `..`s followed by the remaining components of the target, and resolving it against the base gives the target (proved with an induction over component sequences); import_path() returns exactly "./"-or-nothing + the rendering of that relative path with one `.ts` removed (+ `.js` iff import-esm); lemmas derive that the specifier starts with ./ or ../ and that re-adding .ts gives the rendering; generate_imports lists every dependency that lives in another file under import_path(own file, base ++ its output path) and never the file itself (unit gen_imports). Unbounded in depth.',
             note='Trusted: std::path contracts for unix (components, join, parent, to_string_lossy rendering and its parse round trip), no Windows prefixes; hypotheses: the dependency file name ends in .ts and is not an ancestor directory of the importing file; `forward slashes only` assumes component names contain no backslash.'),
 'C09': dict(text='Both renaming functions are proved equal to spec functions for every string and all eight rules; serde_derive\'s own apply_to_field/apply_to_variant (version from Cargo.lock) are lifted by the same lifter and proved equal to the same spec functions on serde\'s non-panicking domain, so ts-rs == serde for every identifier; the call sites in format_field / format_variant are checked: the rule is applied to the identifier without its r# prefix, an explicit rename wins.',
             note='Trusted: std str/char contracts (Unicode predicates uninterpreted outside ASCII), rule-name correspondence of the two rename_all parse tables, that serde uses these functions for wire names.'),
 'C10': dict(text='Precedence only: for all four attribute kinds and every field, from_attrs returns wins(ts, serde) (ts value if present, else serde value) with serde-compat on, and exactly the ts value with serde-compat off; proved for all payload values (opaque) on the lifted merge/from_attrs bodies, in both cfg variants; #[ts(skip)] on a field or variant decides alone (its serde list is not consulted); skip_until_next_comma, which makes an unknown serde key inert, leaves the parse buffer at the first top-level comma at or after its start (closure contract + loop invariant over a skeleton of syn\'s cursor).',
             note='Not decided by proof: equivalence of the hand-written ts/serde key tables and the rest of the impl_parse! parser programs (macro_rules; opaque stubs in the units) — bounded stand-ins: a 1344-cell grid position x supported key x arrangement of inert keys through the real derive (expansions compared token for token), and really derived types with both spellings, keyword and unknown keys; both under default features and with `no-serde-warnings`. Trusted: Option::or contract, syn skeletons.'),
 'C11': dict(text='The emitted output_path() code returns `<name>.ts` by default, the given path + `<name>.ts` when export_to ends in `/`, the path verbatim otherwise (template lift); the kind of reference to a field type (name() vs inline()) and the dependency registered for it agree at the call sites of named / tuple / newtype / format_variant. Path agreement and bookkeeping: the path a type reports (default_output_path) normalises to the registry key / file location export_all writes, for every base directory spelling; export_and_merge changes no file but its own (ghost disk model); export_recursive visits the dependencies of every new type; Dependencies::push contributes the type and its generic arguments, append_from its dependencies; the six hand-written container impls (Option, Result, Vec, [T; N], HashMap, Range) forward visit_generics / visit_dependencies to every type argument (unit containers); export_all / export_all_to hand their directory down to every export_into.',
             note='Not decided: the generated visit_dependencies bodies (quote! templates) and therefore "exactly one file per reachable type".'),
 'C13': dict(text='Output-ordering mechanisms of merge() only: declarations are placed by sorted insertion and the import block is proved to be the rendering, in ascending order, of the set of (path, name) pairs whatever their arrival order (units merge, merge_imports); generate_imports renders its BTreeMap/BTreeSet in ascending order (unit gen_imports).',
             note='Not decided: hash-seed independence of the derive macro across compilations, test scheduling.'),
 'C15': dict(text='Containment, content and placement: parse_docs renders a doc block that is exactly one comment for every doc text (no `*/` can end it early) and is exactly the rendering of every doc attribute in order, the text itself with only backslashes inserted (lemma); FieldAttr::merge drops docs of flattened fields; from_attrs takes docs only from doc attributes; generate_decl places the block immediately before `export`; the emitted field entry is docs + name + type, i.e. a field doc sits immediately before its property.',
             note='Not decided: variant docs (not emitted). Known finding D7 for merged files with blank lines inside doc blocks. The wrapper templates of named() with repetitions are decided by a registered bounded stand-in (op:variant_literals), not by proof.'),
 'C16': dict(text='Panic-freedom of the hand-written kernels (no slice/unwrap/expect/unreachable can fire in the rename functions, absolute, diff_paths, import_path, tagged, from_variant) and the rejection tables: every documented incompatible attribute combination makes assert_validity return Err, and assert_validity Ok implies tagged() Ok so that the expect in from_variant cannot fire; the dispatchers type_def and enum_def (head) return that error before any formatter runs; the entry points return every error of parsing / struct_def / enum_def and turn it into compile_error! tokens (unit entry). All values, no bound.',
             note='Not decided by proof: that the expansion compiles (bounded stand-in: a compile probe of 20 hand-written items and a 1263-cell shape x attribute x generics grid), unknown-key errors of the syn parsers (bounded stand-in: 30 items through the real entry point); the compile-time IsOption check. Context assumptions: enum_def validates before formatting variants; import_path is called with a file path that has a parent.'),
 'C17': dict(text='Error-not-panic for path failures: absolute/diff_paths/import_path return Err(CannotBeExported) exactly when the target climbs above the root (Io errors apart) and never panic; export_into returns CannotBeExported for non-exportable types before any fs call; export_and_merge leaves the registry unchanged on every failing fs call (all fault positions at once) and touches no other file; export_recursive / export_all_into return an error for a root that cannot be exported.',
             note='Not decided: "repeating the export produces the same directory contents" and "leaves every other file untouched" (file-system frame). Trusted: fs functions may fail at any call; std::path contracts.'),
}
NA = {
 'C01': 'semantics of generated code vs serde_json output and a TypeScript type semantics: no function in /repo computes it; the token-stream templates are outside Verus single-file reach (syn/quote) and Kani cannot compile syn values (ICE). Sub-mechanisms are decided under C09, C10, C04.',
 'C02': 'converse inclusion of C01; additionally needs serde\'s Deserialize semantics as a spec artefact; no contract in reach can express it.',
 'C03': 'closure of a dependency graph whose edges are generated per type (visit_dependencies bodies emitted by the macro); whether the visitor reports exactly the names that occur in the declaration is a property of quote! templates no contract here reaches. The runtime half is decided elsewhere: generate_imports (one line per other file, never the file itself, specifier = import_path of the dependency file) under C04/C08/C13, Dependencies::push/append_from under C11.',
 'C07': 'parametricity of generated decl() code that re-instantiates the type with dummy structs; no runtime function in /repo has the declaration text as its result.',
 'C12': 'every built-in impl is a constant or a one-line format!; a contract would restate the table, and the statement needs serde\'s serializer and TypeScript semantics as spec artefacts.',
 'C14': 'relational property between two generated programs (inline/flatten/as); the rewriting sits inside quote! templates and syn::Type walks, outside the verifier\'s reach.',
}


def main():
    units = json.load(open(os.path.join(HERE, 'units.json')))
    served = sorted({p for u in units.values() for p in u['properties']})
    checks = []
    for pid in sorted(CLAIMS):
        if pid not in served:
            continue
        c = CLAIMS[pid]
        checks.append({
            'property_id': pid,
            'quick_cmd': f'bin/check {pid} --tier quick',
            'thorough_cmd': f'bin/check {pid} --tier thorough',
            'evidence_file': f'evidence/{pid}.json',
            'replay_cmd_template': f'bin/check {pid} --replay {{path}}',
            'engine': 'verus-lift',
            'level_claimed': {'category': 'proof', 'text': c['text'], 'design_ref': f'DESIGN.md section 8 ({pid})'},
            'level_note': c['note'],
            'technique': TECH,
        })
    na = [{'property_id': k, 'reason': v} for k, v in sorted(NA.items())]
    for pid in sorted(CLAIMS):
        if pid not in served:
            na.append({'property_id': pid, 'reason': 'planned unit not yet brought through the verifier (see DESIGN.md section 11); not claimed until its check runs green'})
    man = {
        'version': 1,
        'setup_cmd': "python3 -c \"import sys; sys.path.insert(0,'/verif'); from driver import natives; natives.build_replay(); natives.build_replay(('no-serde-warnings',)); natives.build_probe()\" || true",
        'hooks': {
            'guard': '--cfg ts_rs_verif',
            'enable': "RUSTFLAGS='--cfg ts_rs_verif' when building the replay program (driver/natives.py); verdicts need no hook (lifting reads the source text)",
            'baseline_off_cmd': 'cd /repo && cargo test --workspace --no-fail-fast --offline',
            'source_commits': ['c104a6c'],
            'add_only': True,
        },
        'engines': [{'name': 'verus-lift', 'path': 'bin/check', 'serves_properties': [c['property_id'] for c in checks],
                     'kind_free_text': 'mechanical lift of real functions (lift/) + contracts (units/*.vrs, spec/*.rs), discharged by Verus single-file; replay program (replay/) runs witnesses on the real crates'}],
        'checks': checks,
        'not_applicable': sorted(na, key=lambda x: x['property_id']),
        'notes': 'exit 2 (UNDECIDED) is used when the lifter loses an anchor, when the verifier front end rejects the assembled file and the bounded stand-in search finds no failing input, or when an obligation fails only in a weakened run (unknown std function left unconstrained, loop contracts that no longer match the code) without a replayed counterexample; it is never reported as a violation. Some code the properties depend on cannot be brought within reach of the verifier at all (the line-parser closure of merge(): C05/C08/C13; the impl_parse! parser macro: C10/C16; the token-level generics handling of the emitted impl and the typing of the spliced expressions: C16; the order of the emitted visitor calls: C13); for each a bounded check with a stated bound is registered in units.json (`bounded_standins`), runs in every tier, is labelled bounded in evidence coverage.bounded_standins and adds nothing to `discharged`. quick = lift + Verus + canary + trusted-base scan + those registered bounded checks; thorough = quick + two more SMT seeds + conformance test of the trusted std contracts + bounded cross-check of the discharged contracts against the real code (DESIGN.md section 6a).',
    }
    json.dump(man, open(os.path.join(HERE, 'MANIFEST.json'), 'w'), indent=1)
    print('claimed:', [c['property_id'] for c in checks])


if __name__ == '__main__':
    main()
