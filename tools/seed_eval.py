#!/usr/bin/env python3
"""seed_eval.py <PID> [<name>]: confirm a sub-agent's seeded change in its scratch worktree /tmp/mut_<PID>, run the checks
against it (applied to /repo, reverted straight afterwards) and store it under /verif/seeded/<name>/."""
import json, os, shutil, subprocess, sys, time
pid = sys.argv[1]
name = sys.argv[2] if len(sys.argv) > 2 else pid + '_a'
wt = sys.argv[3] if len(sys.argv) > 3 else f'/tmp/mut_{pid}'
mut = f'{wt}/_mut'
VERIF = '/verif'
REPO = os.environ.get('VERIF_REPO', '/repo')   # a scratch checkout when several evaluations run side by side

def sh(cmd, cwd=None, timeout=3600):
    p = subprocess.run(cmd, shell=True, cwd=cwd, capture_output=True, text=True, timeout=timeout)
    return p.returncode, p.stdout + p.stderr

demo_cmd = open(f'{mut}/demo_cmd.txt').read().strip().splitlines()[-1].strip()
patch = f'{mut}/patch.diff'
res = {}
# 1. suite with the change (the demonstration file, if it is a test in the tree, is part of what the agent added; run suite excluding nothing)
rc, out = sh('cargo test --workspace --no-fail-fast --offline 2>&1 | grep -E "^test result|FAILED|panicked" | head -40', cwd=wt)
res['suite_with_change'] = out.strip().splitlines()
# 2. demo with change
sh('cargo clean -p ts-rs -p ts-rs-macros --offline', cwd=wt)
rc1, out1 = sh(demo_cmd + ' 2>&1 | tail -15', cwd=wt)
res['demo_with_change_tail'] = out1.strip().splitlines()[-8:]
# 3. revert, demo without
time.sleep(1.2)
sh(f'git apply -R {patch}', cwd=wt)
sh('find macros/src ts-rs/src -name "*.rs" -newer Cargo.toml -exec touch {} +', cwd=wt)
time.sleep(1.2)
sh('cargo clean -p ts-rs -p ts-rs-macros --offline', cwd=wt)
rc2, out2 = sh(demo_cmd + ' 2>&1 | tail -15', cwd=wt)
res['demo_without_change_tail'] = out2.strip().splitlines()[-8:]
time.sleep(1.2)
sh(f'git apply {patch}', cwd=wt)
# 4. our checks against it
rc, out = sh(f'git -C {REPO} apply {patch}')
assert rc == 0, out
checks = {}
try:
    man = json.load(open(f'{VERIF}/MANIFEST.json'))
    props = [c['property_id'] for c in man['checks']]
    for p in props:
        t = time.time()
        rc, out = sh(f'bin/check {p}', cwd=VERIF)
        lines = [l for l in out.splitlines() if l.startswith(('VIOLATION', 'UNDECIDED', 'OK', 'KNOWN-FINDING'))]
        checks[p] = {'exit': rc, 'lines': [l[:300] for l in lines if not l.startswith('KNOWN')], 'wall_s': round(time.time() - t, 1)}
        for l in lines:
            if l.startswith('VIOLATION'):
                rp = l.split('replay=')[1].split()[0]
                try:
                    rec = json.load(open(rp))
                    checks[p].setdefault('replays', []).append({'obligation': rec['obligation'], 'witness': rec.get('witness')})
                except Exception:
                    pass
finally:
    sh(f'git -C {REPO} checkout -- .')
res['checks'] = checks
d = f'{VERIF}/seeded/{name}'
os.makedirs(d, exist_ok=True)
shutil.copy(patch, f'{d}/patch.diff')
for f in os.listdir(mut):
    if f not in ('patch.diff',):
        shutil.copy(f'{mut}/{f}', f'{d}/{f}')
caught = [p for p, c in checks.items() if c['exit'] == 1]
meta = {'breaks_property': pid, 'source': 'independent sub-agent given only the property text and a scratch worktree',
        'needs_to_manifest': 'see notes.md', 'what_was_run': {'suite_with_change': res['suite_with_change'], 'demo_cmd': demo_cmd,
        'demo_with_change_tail': res['demo_with_change_tail'], 'demo_without_change_tail': res['demo_without_change_tail']},
        'checks_against_it': checks, 'caught_by': caught, 'undecided': [p for p, c in checks.items() if c['exit'] == 2]}
json.dump(meta, open(f'{d}/meta.json', 'w'), indent=1)
print(json.dumps({'caught_by': caught, 'undecided': meta['undecided'], 'suite': res['suite_with_change'], 'demo_with': res['demo_with_change_tail'][-3:], 'demo_without': res['demo_without_change_tail'][-3:]}, indent=1))
for p in caught:
    for l in checks[p]['lines']:
        print(p, l)
# evidence files written while a change was applied are not evidence about the tree: restore the committed ones
import subprocess as _sp
if 'VERIF_EVID' not in os.environ:
    _sp.run(['git', '-C', '/verif', 'checkout', '--', 'evidence'])
