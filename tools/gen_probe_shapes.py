#!/usr/bin/env python3
"""gen_probe_shapes.py [--list]: writes replay/probe/src/shapes.rs, the shape x attribute grid of the compile probe
(registered bounded stand-in `probe:items`, property C16: "the rest compiles").

The grid (the stated bound): every item shape below, with each single field attribute (and a few documented-compatible pairs)
placed on ALL fields, on the FIRST field only and on the LAST field only, for 1, 2 and 3 fields; enums in the four
representations; variant attributes on unit / tuple / struct variants; container attributes on structs and enums.
A cell the derive rejects with a diagnostic on the pinned tree is not a valid input and is named by rejected() (with the reason);
everything else has to compile. The file is generated, committed, and only rebuilt by hand when the grid changes."""
import itertools, os, sys

NAMED = [  # (cell, attribute text, field type)
    ('plain', '', 'i32'),
    ('type', '#[ts(type = "string")]', 'i32'),
    ('type_union', '#[ts(type = "0 | 1")]', 'Opaque'),
    ('as', '#[ts(as = "String")]', 'Opaque'),
    ('inline', '#[ts(inline)]', 'Inner'),
    ('inline_generic', '#[ts(inline)]', 'Gen<i32>'),
    ('skip', '#[ts(skip)]', 'Opaque'),
    ('optional', '#[ts(optional)]', 'Option<i32>'),
    ('optional_nullable', '#[ts(optional = nullable)]', 'Option<String>'),
    ('rename', '#[ts(rename = "re named")]', 'i32'),
    ('flatten', '#[ts(flatten)]', 'Inner'),
    ('flatten_enum', '#[ts(flatten)]', 'InnerEnum'),
    ('docs', '/// documented\n    /// twice', 'i32'),
    ('type_rename_docs', '/// d\n    #[ts(type = "0 | 1", rename = "r")]', 'Opaque'),
    ('inline_rename', '#[ts(inline, rename = "r")]', 'Inner'),
    ('as_optional', '#[ts(as = "Option<String>", optional)]', 'Opaque'),
    ('docs_braces', '/// serialized like {"id": 1}, with {0}, {} and {name}', 'i32'),
    ('docs_braces_type', '/// serialized like {"id": 1}, with {0}, {} and {name}\n    #[ts(type = "string")]', 'Opaque'),
    ('rename_braces', '#[ts(rename = "{key}")]', 'i32'),
    ('rename_braces_type', '#[ts(rename = "{0}", type = "{ a: number }")]', 'Opaque'),
    ('serde_rename', '#[serde(rename = "wire")]', 'i32'),
    ('serde_skip', '#[serde(skip)]', 'Opaque'),
    ('serde_flatten', '#[serde(flatten)]', 'Inner'),
    ('serde_default_unknown', '#[serde(default, skip_serializing_if = "Option::is_none")]', 'Option<i32>'),
    ('serde_with_type', '#[serde(with = "x")]\n    #[ts(type = "string")]', 'Opaque'),
]
TUPLE = [
    ('plain', '', 'i32'),
    ('type', '#[ts(type = "string")]', 'i32'),
    ('type_union', '#[ts(type = "0 | 1")]', 'Opaque'),
    ('as', '#[ts(as = "String")]', 'Opaque'),
    ('inline', '#[ts(inline)]', 'Inner'),
    ('skip', '#[ts(skip)]', 'Opaque'),
    ('optional', '#[ts(optional)]', 'Option<i32>'),
    ('optional_nullable', '#[ts(optional = nullable)]', 'Option<String>'),
    ('docs', '/// documented', 'i32'),
    ('serde_skip', '#[serde(skip)]', 'Opaque'),
]
VARIANT = [
    ('plain', ''),
    ('rename', '#[ts(rename = "re named")]'),
    ('skip', '#[ts(skip)]'),
    ('untagged', '#[ts(untagged)]'),
    ('inline', '#[ts(inline)]'),
    ('docs', '/// documented'),
    ('serde_rename', '#[serde(rename = "wire")]'),
    ('serde_skip_unknown', '#[serde(skip, alias = "x")]'),
]
REPRS = [('external', ''), ('internal', '#[ts(tag = "t")]'), ('adjacent', '#[ts(tag = "t", content = "c")]'), ('untagged', '#[ts(untagged)]')]
INFLECTIONS = ['lowercase', 'UPPERCASE', 'camelCase', 'snake_case', 'PascalCase', 'SCREAMING_SNAKE_CASE', 'kebab-case', 'SCREAMING-KEBAB-CASE']
PLACEMENTS = ['all', 'first', 'last']

# cells the derive rejects with its own diagnostic on the pinned tree (not valid inputs; checked when the grid was generated)
HERE = os.path.dirname(os.path.abspath(__file__))
REJECTED_FILE = os.path.join(HERE, '..', 'replay', 'probe', 'rejected.json')
try:
    import json as _json
    REJECTED = _json.load(open(REJECTED_FILE))
except OSError:
    REJECTED = {}


def rejected(cid):
    # committed list (replay/probe/rejected.json: cell -> the derive's diagnostic), written once by `--learn` on the pinned tree and
    # reviewed by hand: only diagnostics of the derive itself are accepted there, never a rustc error in the expansion
    return REJECTED.get(cid)


# pairs of field attributes (each key with the text it contributes)
PAIR_KEYS = [
    ('type', 'ts', 'type = "string"'), ('as', 'ts', None), ('inline', 'ts', 'inline'), ('skip', 'ts', 'skip'),
    ('optional', 'ts', 'optional'), ('nullable', 'ts', 'optional = nullable'), ('rename', 'ts', 'rename = "r n"'), ('flatten', 'ts', 'flatten'),
    ('docs', 'doc', '/// documented'), ('serde_rename', 'serde', 'rename = "wire"'), ('serde_skip', 'serde', 'skip'),
    ('serde_default', 'serde', 'default'), ('serde_flatten', 'serde', 'flatten'), ('serde_unknown', 'serde', 'alias = "al"'),
]


def pair_field(a, b):
    keys = {a, b}
    opt = bool(keys & {'optional', 'nullable'})
    structy = bool(keys & {'inline', 'flatten', 'serde_flatten'})
    if 'as' in keys:
        ty, as_txt = 'Opaque', ('as = "Option<String>"' if opt else ('as = "Inner"' if structy else 'as = "String"'))
    else:
        inner = 'Inner' if structy else 'i32'
        ty = f'Option<{inner}>' if opt else (inner if structy else ('Opaque' if keys & {'type', 'skip', 'serde_skip'} else 'i32'))
        as_txt = None
    ts, serde, doc = [], [], []
    for k, kind, txt in PAIR_KEYS:
        if k in keys:
            t = as_txt if k == 'as' else txt
            (ts if kind == 'ts' else serde if kind == 'serde' else doc).append(t)
    lines = doc + ([f'#[ts({", ".join(ts)})]'] if ts else []) + ([f'#[serde({", ".join(serde)})]'] if serde else [])
    return '\n    '.join(lines), ty


def fields(table, cell, n, placement, named):
    attr, ty = next((a, t) for c, a, t in table if c == cell)
    out = []
    for i in range(n):
        on = placement == 'all' or (placement == 'first' and i == 0) or (placement == 'last' and i == n - 1)
        a, t = (attr, ty) if on else ('', 'i32')
        name = f'f_{i}: ' if named else ''
        out.append((a + '\n    ' if a else '') + name + t)
    return out


def items():
    out = []   # (cell id, item text)
    for table, named in ((NAMED, True), (TUPLE, False)):
        kind = 'named' if named else 'tuple'
        for cell, _, _ in table:
            for n in (1, 2, 3):
                for pl in PLACEMENTS:
                    if n == 1 and pl != 'all':
                        continue
                    fs = fields(table, cell, n, pl, named)
                    cid = f'struct.{kind}.{cell}.{n}.{pl}'
                    if named:
                        out.append((cid, '#[derive(TS)] pub struct S {\n    ' + ',\n    '.join(fs) + ',\n}'))
                    else:
                        out.append((cid, '#[derive(TS)] pub struct S(\n    ' + ',\n    '.join(fs) + ',\n);'))
            for rname, rattr in REPRS:
                for n in (1, 2):
                    for pl in (('all',) if n == 1 else ('all', 'first')):
                        if not named and rname == 'internal':
                            continue   # an internally tagged enum has no tuple variants (serde rejects them as well)
                        fs = fields(table, cell, n, pl, named)
                        cid = f'enum.{rname}.{kind}.{cell}.{n}.{pl}'
                        body = ('{\n    ' + ',\n    '.join(fs) + ',\n    }') if named else ('(\n    ' + ',\n    '.join(fs) + ',\n    )')
                        out.append((cid, f'#[derive(TS)] {rattr} pub enum E {{\n    U,\n    V {body},\n}}'))
    names = [k for k, _, _ in PAIR_KEYS]
    for a, b in itertools.combinations(names, 2):
        attr, ty = pair_field(a, b)
        for pl in ('all', 'first'):
            f0 = attr + '\n    f_0: ' + ty
            f1 = (attr + '\n    f_1: ' + ty) if pl == 'all' else 'f_1: i32'
            out.append((f'pair.struct.named.{a}+{b}.{pl}', '#[derive(TS)] pub struct S {\n    ' + f0 + ',\n    ' + f1 + ',\n}'))
            out.append((f'pair.enum.named.{a}+{b}.{pl}', '#[derive(TS)] pub enum E {\n    U,\n    V {\n    ' + f0 + ',\n    ' + f1 + ',\n    },\n}'))
            if not {a, b} & {'rename', 'flatten', 'serde_rename', 'serde_flatten', 'optional', 'nullable', 'serde_default'}:
                t0 = attr + '\n    ' + ty
                t1 = t0 if pl == 'all' else 'i32'
                out.append((f'pair.struct.tuple.{a}+{b}.{pl}', '#[derive(TS)] pub struct S(\n    ' + t0 + ',\n    ' + t1 + ',\n);'))
    for rname, rattr in REPRS:
        for vcell, vattr in VARIANT:
            for shape, body in (('unit', ''), ('newtype', '(Inner)'), ('tuple', '(i32, String)'), ('named', '{ a: i32, b_c: String }')):
                if rname == 'internal' and shape == 'tuple':
                    continue
                cid = f'variant.{rname}.{shape}.{vcell}'
                out.append((cid, f'#[derive(TS)] {rattr} pub enum E {{\n    First,\n    {vattr}\n    V{body},\n    Last {{ x: i32 }},\n}}'))
    # generic parameter lists: lifetimes first, then type and const parameters in every order (Rust allows `<const N: usize, T>`),
    # defaults trailing; each parameter is used by a field so that it reaches decl(), the impl header and WithoutGenerics
    GEN = {'a': ("'a", "&'a str"), 'T': ('T', 'T'), 'U': ('U: Clone', 'Vec<U>'), 'N': ('const N: usize', '[i32; N]'), 'M': ('const M: usize', '[u8; M]'),
           'D': ('D = i32', 'Option<D>'), 'K': ('const K: usize = 2', '[i32; K]')}
    orders = ['T', 'N', 'TN', 'NT', 'TNU', 'NTM', 'TUN', 'NMT', 'aT', 'aN', 'aTN', 'aNT', 'aNTM', 'TD', 'ND', 'NTD', 'TNK', 'NTK', 'NTDK', 'aNTUDK']
    for o in orders:
        params = ', '.join(GEN[c][0] for c in o)
        flds = ', '.join(f'f_{i}: {GEN[c][1]}' for i, c in enumerate(o))
        tys = ', '.join(GEN[c][1] for c in o)
        out.append((f'generics.struct.named.{o}', f'#[derive(TS)] pub struct S<{params}> {{ {flds} }}'))
        out.append((f'generics.struct.tuple.{o}', f'#[derive(TS)] pub struct S<{params}>({tys});'))
        out.append((f'generics.enum.{o}', f'#[derive(TS)] pub enum E<{params}> {{ A {{ {flds} }}, B({tys}), C }}'))
        out.append((f'generics.enum.tagged.{o}', f'#[derive(TS)] #[ts(tag = "t")] pub enum E<{params}> {{ A {{ {flds} }}, C }}'))
        if 'T' in o:
            out.append((f'generics.struct.inline_flatten.{o}', f'#[derive(TS)] pub struct S<{params}> {{ {flds}, #[ts(inline)] g: Gen<T>, #[ts(flatten)] h: Gen<T> }}'))
    # field attributes on fields whose type mentions a type parameter, a lifetime parameter or the type itself: whatever the template
    # of the attribute emits (a nested fn, a const, a closure) must still be able to name them
    GATTR = [('optional', '#[ts(optional)]', 'Option<{}>'), ('nullable', '#[ts(optional = nullable)]', 'Option<{}>'), ('inline', '#[ts(inline)]', 'Gen<{}>'),
             ('flatten', '#[ts(flatten)]', 'Gen<{}>'), ('type', '#[ts(type = "string")]', '{}'), ('as', '#[ts(as = "Option<_>")]', '{}'), ('skip', '#[ts(skip)]', '{}'),
             ('rename', '#[ts(rename = "r")]', '{}'), ('docs', '/// documented', 'Vec<{}>'), ('plain', '', 'Option<{}>')]
    for cell, attr, ty in GATTR:
        attr = attr + '\n    ' if attr else ''
        t, l, me = ty.format('T'), ty.format("&'a str"), ty.format('Box<Self>')
        out.append((f'generics.field.{cell}.type_param', f'#[derive(TS)] pub struct S<T> {{ {attr} f: {t}, g: i32 }}'))
        out.append((f'generics.field.{cell}.lifetime', f"#[derive(TS)] pub struct S<'a> {{ {attr} f: {l}, g: i32 }}"))
        if cell not in ('inline', 'flatten'):
            out.append((f'generics.field.{cell}.self', f'#[derive(TS)] pub struct S {{ {attr} f: {me}, g: i32 }}'))
        out.append((f'generics.variant_field.{cell}.type_param', f'#[derive(TS)] pub enum E<T> {{ A {{ {attr} f: {t}, g: i32 }}, B }}'))
        out.append((f'generics.variant_field.{cell}.tagged.type_param', f'#[derive(TS)] #[ts(tag = "t")] pub enum E<T> {{ A {{ {attr} f: {t}, g: i32 }}, B }}'))
        if cell in ('type', 'as', 'skip', 'inline', 'docs', 'plain'):
            out.append((f'generics.tuple_field.{cell}.type_param', f'#[derive(TS)] pub struct S<T>({attr} {t}, i32);'))
    for infl in INFLECTIONS:
        out.append((f'container.struct.rename_all.{infl}', f'#[derive(TS)] #[ts(rename_all = "{infl}")] pub struct S {{ some_field: i32, r#type: i32, other: Inner }}'))
        out.append((f'container.enum.rename_all.{infl}', f'#[derive(TS)] #[ts(rename_all = "{infl}")] pub enum E {{ SomeVariant, Other {{ some_field: i32 }}, T(i32) }}'))
        out.append((f'container.enum.rename_all_fields.{infl}', f'#[derive(TS)] #[ts(rename_all_fields = "{infl}")] pub enum E {{ SomeVariant, Other {{ some_field: i32 }}, T(i32) }}'))
        out.append((f'variant.rename_all.{infl}', f'#[derive(TS)] pub enum E {{ A, #[ts(rename_all = "{infl}")] Other {{ some_field: i32 }} }}'))
    for cid, txt in [
        ('container.struct.rename', '#[derive(TS)] #[ts(rename = "Renamed")] pub struct S { a: i32 }'),
        ('container.struct.tag', '#[derive(TS)] #[ts(tag = "kind")] pub struct S { a: i32 }'),
        ('container.struct.tag_empty', '#[derive(TS)] #[ts(tag = "kind")] pub struct S { }'),
        ('container.struct.optional_fields', '#[derive(TS)] #[ts(optional_fields)] pub struct S { a: Option<i32>, b: i32, #[ts(type = "string")] c: Opaque }'),
        ('container.struct.optional_fields_nullable', '#[derive(TS)] #[ts(optional_fields = nullable)] pub struct S { a: Option<i32>, b: i32 }'),
        ('container.struct.type', '#[derive(TS)] #[ts(type = "string")] pub struct S { a: Opaque }'),
        ('container.struct.as', '#[derive(TS)] #[ts(as = "String")] pub struct S { a: Opaque }'),
        ('container.enum.type', '#[derive(TS)] #[ts(type = "string")] pub enum E { A(Opaque) }'),
        ('container.enum.as', '#[derive(TS)] #[ts(as = "String")] pub enum E { A(Opaque) }'),
        ('container.struct.docs', '/// documented\n/// twice\n#[derive(TS)] pub struct S { a: i32 }'),
        ('container.struct.unit', '#[derive(TS)] pub struct S;'),
        ('container.struct.unit_braces', '#[derive(TS)] pub struct S {}'),
        ('container.struct.unit_parens', '#[derive(TS)] pub struct S();'),
        ('container.enum.empty', '#[derive(TS)] pub enum E {}'),
        ('container.struct.serde_unknown', '#[derive(TS)] #[serde(deny_unknown_fields, rename = "Wire", bound = "")] pub struct S { a: i32 }'),
        ('container.enum.serde_unknown', '#[derive(TS)] #[serde(expecting = "x", tag = "t")] pub enum E { A, B { x: i32 } }'),
        ('container.enum.all_variants_skipped', '#[derive(TS)] pub enum E { #[ts(skip)] A, #[ts(skip)] B { x: i32 } }'),
        ('container.enum.one_variant_left', '#[derive(TS)] pub enum E { #[ts(skip)] A, B { x: i32 } }'),
        ('container.enum.all_variants_skipped.tagged', '#[derive(TS)] #[ts(tag = "t")] pub enum E { #[ts(skip)] A, #[ts(skip)] B { x: i32 } }'),
        ('generics.optional_fields.type_param', '#[derive(TS)] #[ts(optional_fields)] pub struct S<T> { x: T, y: Option<T>, z: i32 }'),
        ('generics.optional_fields.nullable.type_param', '#[derive(TS)] #[ts(optional_fields = nullable)] pub struct S<T> { x: T, y: Option<T> }'),
        ('container.struct.all_skipped_named', '#[derive(TS)] pub struct S { #[ts(skip)] a: Opaque, #[ts(skip)] b: Opaque }'),
        ('container.struct.all_flattened', '#[derive(TS)] pub struct S { #[ts(flatten)] a: Inner, #[ts(flatten)] b: InnerEnum }'),
        ('container.struct.raw_idents', '#[derive(TS)] pub struct r#struct { r#type: i32, r#fn: Inner }'),
        ('container.enum.raw_idents', '#[derive(TS)] pub enum r#enum { r#type, r#fn { r#as: i32 } }'),
        ('container.struct.generic_inline_flatten', '#[derive(TS)] pub struct S<T> { #[ts(inline)] a: Gen<T>, #[ts(flatten)] b: Gen<T>, c: Vec<T> }'),
        ('container.struct.concrete', '#[derive(TS)] #[ts(concrete(T = i32))] pub struct S<T> { #[ts(type = "string")] a: T, b: T }'),
    ]:
        out.append((cid, txt))
    return out


def render():
    its = items()
    lines = ['//! GENERATED by tools/gen_probe_shapes.py -- the shape x attribute grid of the compile probe (C16: the expansion of a valid item compiles).',
             '//! Every module is one grid cell; the cell id is the comment in front of it.',
             '#![allow(dead_code, non_camel_case_types, unused_imports)]',
             '#[derive(serde::Serialize)] pub struct Opaque;',
             '#[derive(ts_rs::TS, serde::Serialize)] pub struct Inner { pub a: i32, pub b: String }',
             '#[derive(ts_rs::TS, serde::Serialize)] pub enum InnerEnum { A { x: i32 }, B { y: String } }',
             '#[derive(ts_rs::TS, serde::Serialize)] pub struct Gen<T> { pub t: T }',
             'pub mod x { pub fn serialize<S: serde::Serializer>(_: &super::Opaque, s: S) -> Result<S::Ok, S::Error> { s.serialize_unit() } }', '']
    k = nrej = 0
    for cid, txt in its:
        if rejected(cid):
            nrej += 1
            continue
        if 'serde(' in txt:
            txt = txt.replace('#[derive(TS)]', '#[derive(TS, serde::Serialize)]')
        k += 1
        lines.append(f'// cell: {cid}')
        lines.append(f'mod c{k} {{ use ts_rs::TS; use super::{{Opaque, Inner, InnerEnum, Gen, x}};\n{txt}\n}}')
    return '\n'.join(lines) + '\n', k, nrej


def learn(pdir):
    """Build the probe with NO cell left out and record every cell the derive itself rejects (a diagnostic without an error code,
    pointing into the cell); rustc errors in an expansion (error[E....]) are printed and never recorded."""
    import re, subprocess, json
    global REJECTED
    REJECTED = {}
    text, k, _ = render()
    open(os.path.join(pdir, 'src', 'shapes.rs'), 'w', encoding='utf-8').write(text)
    env = dict(os.environ, CARGO_NET_OFFLINE='true', CARGO_TARGET_DIR=os.environ.get('PROBE_TARGET', os.path.join(HERE, '..', 'work', 'probe-target')))
    p = subprocess.run(['cargo', 'build', '--offline', '--quiet', '--message-format=short', '--manifest-path', os.path.join(pdir, 'Cargo.toml')],
                       env=env, capture_output=True, text=True)
    src = text.split('\n')
    rej, hard = {}, []
    for ln in p.stderr.splitlines():
        m = re.match(r'src/shapes\.rs:(\d+):\d+: (error(\[E\d+\])?: .*)', ln)
        if not m:
            continue
        line = int(m.group(1))
        cell = next((src[i].split('cell:')[1].strip() for i in range(line - 1, -1, -1) if src[i].startswith('// cell:')), None)
        if m.group(3):
            hard.append((cell, m.group(2)))
        else:
            rej.setdefault(cell, m.group(2)[len('error: '):])
    for c, msg in hard:
        if c not in rej:
            print('RUSTC ERROR IN AN EXPANSION (not recorded):', c, msg)
    json.dump(dict(sorted(rej.items())), open(REJECTED_FILE, 'w'), indent=0, ensure_ascii=False)
    print(f'{len(rej)} of {k} cells are rejected by the derive; reasons:')
    import collections
    for msg, n in collections.Counter(rej.values()).most_common():
        print(f'  {n:4d}  {msg}')
    REJECTED = rej


if __name__ == '__main__':
    if '--learn' in sys.argv:
        learn(os.path.join(HERE, '..', 'replay', 'probe'))
    text, k, nrej = render()
    if '--list' in sys.argv:
        for cid, _ in items():
            print(cid, '(rejected by the derive: ' + rejected(cid) + ')' if rejected(cid) else '')
        sys.exit(0)
    p = os.path.join(HERE, '..', 'replay', 'probe', 'src', 'shapes.rs')
    open(p, 'w', encoding='utf-8').write(text)
    print(f'{k} cells written to {os.path.normpath(p)} ({nrej} cells rejected by the derive are left out)')
