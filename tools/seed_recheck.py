#!/usr/bin/env python3
"""seed_recheck.py [--first-hit] <name>...: re-run the claimed checks against stored seeded changes (applied to /repo, reverted straight
afterwards). With --first-hit the checks are tried in the order: the property the seed was written for, the properties that caught it
last time, the rest; the run of a seed stops at the first VIOLATION and meta.json is left as it is (a quick "is it still caught")."""
import json, os, subprocess, sys, time
VERIF = '/verif'
REPO = os.environ.get('VERIF_REPO', '/repo')   # a scratch checkout when several rechecks run side by side

def sh(cmd, cwd=None):
    p = subprocess.run(cmd, shell=True, cwd=cwd, capture_output=True, text=True)
    return p.returncode, p.stdout + p.stderr

FIRST_HIT = '--first-hit' in sys.argv
names = [a for a in sys.argv[1:] if not a.startswith('--')] or sorted(os.listdir(f'{VERIF}/seeded'))
# only checks whose units lift text from a file the patch touches can change their verdict: run just those
import re
_units = json.load(open(f'{VERIF}/units.json'))
def _files_of(tpl):
    txt = open(os.path.join(VERIF, tpl)).read()
    for fr in re.findall(r'(?m)^//@fragment (\w+)', txt):
        txt += open(f'{VERIF}/units/frag/{fr}.vrs').read()
    return set(re.findall(r'\bfile=(\S+)', txt))
_unit_files = {u: _files_of(c['template']) for u, c in _units.items()}
def affected(diff_path):
    touched = set(re.findall(r'(?m)^\+\+\+ b/(\S+)', open(diff_path).read()))
    props = {p for u, fs in _unit_files.items() if fs & touched for p in _units[u]['properties']}
    # the registered bounded stand-ins run the whole derive / the whole export path: any source change can reach them
    props |= {p for c in _units.values() for b in c.get('bounded_standins', []) for p in b['properties']}
    return props
for name in names:
    d = f'{VERIF}/seeded/{name}'
    rc, out = sh(f'git -C {REPO} apply {d}/patch.diff')
    if rc:
        print(name, 'patch does not apply:', out[:200]); continue
    checks = {}
    try:
        man = json.load(open(f'{VERIF}/MANIFEST.json'))
        aff = affected(f'{d}/patch.diff')
        order = [c['property_id'] for c in man['checks']]
        if FIRST_HIT:
            try:
                prev = json.load(open(f'{d}/meta.json')).get('caught_by', [])
            except Exception:
                prev = []
            first = [name.split('_')[0]] + [p for p in prev if p != name.split('_')[0]]
            order = [p for p in first if p in order] + [p for p in order if p not in first]
        hit = False
        for p in order:
            if FIRST_HIT and hit:
                break
            if p not in aff:
                checks[p] = {'exit': 0, 'lines': ['not run: no unit of this property lifts text from a file the patch touches'], 'wall_s': 0}
                continue
            t = time.time()
            rc, out = sh(f'bin/check {p}', cwd=VERIF)
            lines = [l for l in out.splitlines() if l.startswith(('VIOLATION', 'UNDECIDED', 'OK'))]
            checks[p] = {'exit': rc, 'lines': [l[:300] for l in lines], 'wall_s': round(time.time() - t, 1)}
            for l in lines:
                if l.startswith('VIOLATION'):
                    hit = True
                    rp = l.split('replay=')[1].split()[0]
                    try:
                        rec = json.load(open(rp))
                        checks[p].setdefault('replays', []).append({'obligation': rec['obligation'], 'witness': rec.get('witness')})
                    except Exception:
                        pass
    finally:
        sh(f'git -C {REPO} checkout -- .')
    if FIRST_HIT:
        cb = [p for p, c in checks.items() if c['exit'] == 1]
        print(name, 'caught_by', cb, '(first hit; checks run: ' + ' '.join(p for p, c in checks.items() if c['wall_s']) + ')', flush=True)
        for p in cb:
            for l in checks[p]['lines']:
                if l.startswith('VIOLATION'): print('   ', p, l[:200], flush=True)
        continue
    meta = json.load(open(f'{d}/meta.json'))
    meta['checks_against_it'] = checks
    meta['caught_by'] = [p for p, c in checks.items() if c['exit'] == 1]
    meta['undecided'] = [p for p, c in checks.items() if c['exit'] == 2]
    json.dump(meta, open(f'{d}/meta.json', 'w'), indent=1)
    print(name, 'caught_by', meta['caught_by'], 'undecided', meta['undecided'], flush=True)
    for p in meta['caught_by']:
        for l in checks[p]['lines']:
            if l.startswith('VIOLATION'): print('   ', p, l[:200])
# evidence files written while a change was applied are not evidence about the tree: restore the committed ones
import subprocess as _sp
if 'VERIF_EVID' not in os.environ:
    _sp.run(['git', '-C', '/verif', 'checkout', '--', 'evidence'])
