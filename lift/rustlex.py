"""Minimal Rust lexer: enough to find items, bodies, loops and statements by structure.

It never interprets expressions; it only distinguishes code from strings/chars/comments and
matches brackets.  Positions are offsets into the (unicode) source string.
"""
from dataclasses import dataclass


@dataclass
class Tok:
    kind: str   # id, num, str, char, life, p  (ws/comments are dropped from the significant list)
    text: str
    start: int
    end: int
    mate: int = -1  # index (in the significant list) of the matching bracket


class LexError(Exception):
    pass


def _is_id_start(c):
    return c == '_' or c.isalpha()


def _is_id_cont(c):
    return c == '_' or c.isalnum()


def lex(src, strict=True):
    """Return (sig, trivia): significant tokens (with bracket mates) and list of comment tokens."""
    i, n = 0, len(src)
    sig, trivia = [], []
    while i < n:
        c = src[i]
        if c.isspace():
            i += 1
            continue
        if src.startswith('//', i):
            j = src.find('\n', i)
            j = n if j < 0 else j
            trivia.append(Tok('lc', src[i:j], i, j))
            i = j
            continue
        if src.startswith('/*', i):
            depth, j = 1, i + 2
            while j < n and depth:
                if src.startswith('/*', j):
                    depth += 1
                    j += 2
                elif src.startswith('*/', j):
                    depth -= 1
                    j += 2
                else:
                    j += 1
            if depth:
                raise LexError('unterminated block comment')
            trivia.append(Tok('bc', src[i:j], i, j))
            i = j
            continue
        # string-ish prefixes
        if c in 'rbc' or c == '"':
            j = i
            # optional b / c prefix, optional r, hashes, quote
            k = j
            if src[k] in 'bc' and k + 1 < n and src[k + 1] in 'r"\'':
                if src[k + 1] == "'" and src[k] == 'b':
                    # byte char b'x'
                    e = _char_end(src, k + 1)
                    if e is not None:
                        sig.append(Tok('char', src[i:e], i, e))
                        i = e
                        continue
                k += 1
            raw = False
            if k < n and src[k] == 'r':
                h = k + 1
                while h < n and src[h] == '#':
                    h += 1
                if h < n and src[h] == '"':
                    raw = True
                    hashes = h - (k + 1)
                    close = '"' + '#' * hashes
                    e = src.find(close, h + 1)
                    if e < 0:
                        raise LexError('unterminated raw string')
                    e += len(close)
                    sig.append(Tok('str', src[i:e], i, e))
                    i = e
                    continue
            if not raw and k < n and src[k] == '"':
                e = k + 1
                while e < n and src[e] != '"':
                    e += 2 if src[e] == '\\' else 1
                if e >= n:
                    raise LexError('unterminated string')
                e += 1
                sig.append(Tok('str', src[i:e], i, e))
                i = e
                continue
            # fall through: identifier starting with r/b/c
        if c == "'":
            e = _char_end(src, i)
            if e is not None:
                sig.append(Tok('char', src[i:e], i, e))
                i = e
                continue
            j = i + 1
            while j < n and _is_id_cont(src[j]):
                j += 1
            sig.append(Tok('life', src[i:j], i, j))
            i = j
            continue
        if _is_id_start(c):
            j = i + 1
            if c == 'r' and src.startswith('r#', i) and i + 2 < n and _is_id_start(src[i + 2]):
                j = i + 3
            while j < n and _is_id_cont(src[j]):
                j += 1
            sig.append(Tok('id', src[i:j], i, j))
            i = j
            continue
        if c.isdigit():
            j = i + 1
            while j < n and (_is_id_cont(src[j]) or (src[j] == '.' and j + 1 < n and src[j + 1].isdigit())):
                j += 1
            sig.append(Tok('num', src[i:j], i, j))
            i = j
            continue
        sig.append(Tok('p', c, i, i + 1))
        i += 1
    # bracket matching
    stack = []
    pairs = {')': '(', ']': '[', '}': '{'}
    for idx, t in enumerate(sig):
        if t.kind != 'p':
            continue
        if t.text in '([{':
            stack.append(idx)
        elif t.text in ')]}':
            if not stack or sig[stack[-1]].text != pairs[t.text]:
                if not strict:
                    continue
                raise LexError(f'unbalanced bracket at {t.start}')
            o = stack.pop()
            sig[o].mate = idx
            t.mate = o
    if stack and strict:
        raise LexError('unclosed bracket')
    return sig, trivia


def _char_end(src, i):
    """src[i] == "'": return end offset if this is a char literal, else None (lifetime)."""
    n = len(src)
    if i + 1 >= n:
        return None
    if src[i + 1] == '\\':
        j = i + 2
        # escape: \n \' \\ \x7f \u{...}
        if j < n and src[j] == 'u':
            e = src.find('}', j)
            if e < 0:
                return None
            j = e + 1
        elif j < n and src[j] == 'x':
            j += 3
        else:
            j += 1
        if j < n and src[j] == "'":
            return j + 1
        return None
    if i + 2 < n and src[i + 2] == "'" and src[i + 1] != "'":
        return i + 3
    return None
