"""Assemble a Verus file from a unit template: includes + lifted real text + spliced contracts.

Template directives (all start with `//@`):
  //@include <path relative to /verif/spec>
  //@lift item  file=F [impl=H|trait=T|mod=M] fn=NAME [as=NEW] [ret=r] [emit_impl=X] [free=1]
  //@lift tail  file=F [impl=H] fn=NAME after_let=V header=<rest of line: fn sig incl. `-> (r: T)`>
  //@lift loop  file=F [impl=H] fn=NAME index=K header=<...>
  //@lift type  file=F name=T
  //@lift macro file=F name=M
  //@lift const file=F name=C
  sections inside a lift block (raw Verus text follows each, until the next `//@` line):
  //@requires [NAME]      //@ensures [NAME]      //@fn_decreases
  //@loop K [binder=it]   //@invariant [NAME]    //@invariant_except_break [NAME]
  //@loop_ensures [NAME]  //@decreases
  //@proof loop=K at=body_start|body_end|after   //@proof at=fn_start|before_tail
  //@subst FROM => TO   (token-exact textual substitution inside the lifted range; logged as R-subst)
  //@end
"""
import glob
import hashlib
import os
import re
import shlex

from .lifter import (Source, Seg, Edits, LiftError, find_loops, rewrite_tail_continue, rewrite_write,
                     rewrite_string_add, rewrite_ctor_fn_value, strip_visibility, rewrite_try, rewrite_format, rewrite_method_shims, annotate_closures, rewrite_closure_tuple_params)

REPO = os.environ.get('VERIF_REPO', '/repo')
VERIF = os.path.dirname(os.path.dirname(os.path.abspath(__file__)))


def resolve_file(spec):
    """`macros/src/x.rs` -> /repo/...;  `serde_derive:src/internals/case.rs` -> registry, version from Cargo.lock."""
    if ':' in spec:
        crate, rel = spec.split(':', 1)
        lock = open(os.path.join(REPO, 'Cargo.lock'), encoding='utf-8').read()
        m = re.search(r'name = "%s"\nversion = "([^"]+)"' % re.escape(crate), lock)
        if not m:
            raise LiftError(f'{crate} not in Cargo.lock')
        ver = m.group(1)
        hits = glob.glob(os.path.expanduser(f'~/.cargo/registry/src/*/{crate}-{ver}/{rel}'))
        if not hits:
            raise LiftError(f'{crate}-{ver} source not in the cargo registry')
        return hits[0], f'{crate}-{ver}/{rel}'
    return os.path.join(REPO, spec), spec


_src_cache = {}


def get_source(spec):
    path, rel = resolve_file(spec)
    if not os.path.exists(path):
        raise LiftError(f'{rel}: file not found')
    key = (path, os.path.getmtime(path))
    if key not in _src_cache:
        _src_cache[key] = Source(path, rel)
    return _src_cache[key]


class Block:
    def __init__(self, kind, args, rest):
        self.kind, self.args, self.rest = kind, args, rest
        self.requires = []      # (name, text)
        self.ensures = []
        self.fn_decreases = None
        self.loops = {}         # k -> dict(binder, invariant[], iexb[], ensures[], decreases)
        self.proofs = []        # (dict(loop, at), text)
        self.substs = []
        self.outlines = []
        self.add_params = []
        self.add_generics = None
        self.shim_methods = {}
        self.closures = {}


def parse_template(text):
    """Split template into a list of ('text', str) | ('include', path) | ('lift', Block)."""
    out = []
    lines = text.split('\n')
    i = 0
    buf = []
    while i < len(lines):
        ln = lines[i]
        s = ln.strip()
        if s.startswith('//@include '):
            if buf:
                out.append(('text', '\n'.join(buf) + '\n'))
                buf = []
            out.append(('include', s[len('//@include '):].strip()))
            i += 1
            continue
        if s.startswith('//@lift '):
            if buf:
                out.append(('text', '\n'.join(buf) + '\n'))
                buf = []
            head = s[len('//@lift '):]
            rest = None
            if ' header=' in head:
                head, rest = head.split(' header=', 1)
            parts = shlex.split(head)
            kind = parts[0]
            args = dict(p.split('=', 1) for p in parts[1:])
            blk = Block(kind, args, rest)
            i += 1
            cur = None  # (section, meta)
            acc = []

            def flush():
                if cur is None:
                    return
                sec, meta = cur
                txt = '\n'.join(acc)
                if sec == 'requires':
                    blk.requires.append((meta.get('_name'), txt))
                elif sec == 'ensures':
                    blk.ensures.append((meta.get('_name'), txt))
                elif sec == 'fn_decreases':
                    blk.fn_decreases = txt
                elif sec in ('invariant', 'invariant_except_break', 'loop_ensures', 'decreases'):
                    blk.loops[meta['_loop']].setdefault(sec, []).append((meta.get('_name'), txt))
                elif sec == 'proof':
                    blk.proofs.append((meta, txt))
                elif sec == 'closure':
                    blk.closures[meta['_k']]['ensures'] = txt

            curloop = None
            while i < len(lines):
                s2 = lines[i].strip()
                if s2.startswith('//@'):
                    flush()
                    acc = []
                    cur = None
                    d = s2[3:].strip()
                    if d == 'end':
                        i += 1
                        break
                    w = d.split()
                    key = w[0]
                    if key == 'loop':
                        curloop = int(w[1])
                        blk.loops.setdefault(curloop, {})
                        for kv in w[2:]:
                            k, v = kv.split('=', 1)
                            blk.loops[curloop][k] = v
                    elif key in ('requires', 'ensures'):
                        cur = (key, {'_name': w[1] if len(w) > 1 else None})
                    elif key == 'fn_decreases':
                        cur = (key, {})
                    elif key in ('invariant', 'invariant_except_break', 'loop_ensures', 'decreases'):
                        if curloop is None:
                            raise LiftError('template: loop section outside //@loop')
                        cur = (key, {'_loop': curloop, '_name': w[1] if len(w) > 1 else None})
                    elif key == 'proof':
                        meta = dict(kv.split('=', 1) for kv in w[1:])
                        cur = ('proof', meta)
                    elif key == 'ghost':
                        meta = dict(kv.split('=', 1) for kv in w[1:])
                        meta['_raw'] = '1'
                        cur = ('proof', meta)
                    elif key == 'outline':
                        om = dict(shlex.split(kv)[0].split('=', 1) if False else kv.split('=', 1) for kv in shlex.split(d[len('outline'):]))
                        blk.outlines.append(om)
                    elif key == 'shim_method':
                        # //@shim_method all => vx_iter_all [prefix=&mut ]
                        mm = re.match(r'shim_method\s+(\w+)\s*=>\s*(\w+)(?:\s+prefix=(.*))?$', d)
                        blk.shim_methods[mm.group(1)] = (mm.group(2), (mm.group(3) or ''))
                    elif key == 'closure':
                        # //@closure K params="c: char" ret="b: bool"   followed by the ensures text
                        kv = dict(x.split('=', 1) for x in shlex.split(d)[2:])
                        blk.closures[int(w[1])] = {'params': kv['params'], 'ret': kv['ret'], 'ensures': ''}
                        cur = ('closure', {'_k': int(w[1])})
                    elif key == 'add_generics':
                        blk.add_generics = d[len('add_generics'):].strip()
                    elif key == 'add_param':
                        blk.add_params.append(d[len('add_param'):].strip())
                    elif key == 'subst':
                        frm, to = d[len('subst'):].split('=>', 1)
                        blk.substs.append((frm.strip(), to.strip()))
                    else:
                        raise LiftError(f'template: unknown directive //@{d}')
                else:
                    acc.append(lines[i])
                i += 1
            out.append(('lift', blk))
            continue
        buf.append(ln)
        i += 1
    if buf:
        out.append(('text', '\n'.join(buf)))
    return out


def _clauses(kw, items, extra=None):
    """Render `requires`/`ensures` clause groups into segments, one tagged segment per named group."""
    segs = []
    if not items and not extra:
        return segs
    segs.append(Seg(f'    {kw}\n', tag=f'{kw}-kw'))
    for name, txt in items:
        t = txt.rstrip()
        if not t.strip():
            continue
        if not t.rstrip().endswith(','):
            t = t.rstrip() + ','
        segs.append(Seg(t + '\n', tag=name or f'{kw}'))
    if extra:
        segs.append(Seg(extra + '\n', tag='CANARY'))
    return segs


def _sig_rewrite(src, fi, ed, ret_name, new_name, log):
    sig = src.sig
    i = fi.fn_idx
    if new_name:
        ed.replace(sig[i + 1].start, sig[i + 1].end, new_name, 'rename')
    j = i + 2
    if sig[j].kind == 'p' and sig[j].text == '<':
        depth = 0
        while True:
            t = sig[j]
            if t.kind == 'p' and t.text == '<':
                depth += 1
            elif t.kind == 'p' and t.text == '>' and not (sig[j - 1].text == '-' and sig[j - 1].end == t.start):
                depth -= 1
                if depth == 0:
                    j += 1
                    break
            elif t.kind == 'p' and t.text in '([':
                j = t.mate
            j += 1
    if sig[j].text != '(':
        raise LiftError(f'{src.rel}:{src.line_of(sig[i].start)}: cannot find parameter list')
    pc = sig[j].mate
    k = pc + 1
    if sig[k].text == '-' and sig[k + 1].text == '>':
        a = sig[k + 2].start
        # return type ends at `where` (depth 0) or body open
        e = k + 2
        while e < fi.open_idx:
            t = sig[e]
            if t.kind == 'p' and t.text in '([':
                e = t.mate
            elif t.kind == 'id' and t.text == 'where':
                break
            e += 1
        b = sig[e - 1].end
        ed.insert(a, f'({ret_name}: ', 'R0-ret')
        ed.insert(b, ')', 'R0-ret')


_log_missing = []
_degraded_fns = []


def block_fn_name(blk):
    """Name of the function a lift block is emitted as."""
    if blk.kind in ('item', 'stub'):
        return blk.args.get('as', blk.args.get('fn'))
    m = re.search(r'\bfn\s+(\w+)', blk.rest or '')
    return m.group(1) if m else blk.args.get('fn')


def _apply_loop_contracts(src, ed, loops, blk, canary):
    # the loop contracts are keyed by loop ordinal: if the loop structure of the lifted code no longer matches (fewer loops,
    # a `for` where the contract has a `while`), none of them is applied and the run counts as weakened (driver: degraded)
    mismatch = None
    for k, spec in blk.loops.items():
        if k >= len(loops):
            mismatch = f'loop contract {k} has no loop (the lifted code has {len(loops)})'
        elif (spec.get('binder') or spec.get('iter_wrap')) and loops[k].kind != 'for':
            mismatch = f"loop {k} is `{loops[k].kind}`, its contract expects `for`"
        elif not spec.get('binder') and spec.get('decreases') and loops[k].kind == 'for':
            mismatch = f'loop {k} is `for`, its contract expects `while`/`loop`'
    if mismatch:
        _log_missing.append('STRUCTURE-CHANGED ' + mismatch + ': loop contracts and loop-positioned hints of this function not applied')
        blk.loops = {}
        blk.proofs = [(m, t) for m, t in blk.proofs if 'loop' not in m]
        blk.args['_nodecr'] = '1'
        if not canary:
            _degraded_fns.append(block_fn_name(blk))
    if not canary and any(k not in blk.loops for k in range(len(loops))) and blk.args.get('uncontracted_loops') != 'ok':
        # a loop the template has no contract for (the code gained a loop): everything after it is proved from a havocked
        # state, so a failure in this function is an artefact unless a failing input replays (driver: weakened run)
        ks = [k for k in range(len(loops)) if k not in blk.loops]
        _log_missing.append(f'UNCONTRACTED-LOOP {src.rel}:{src.line_of(src.sig[loops[ks[0]].kw_idx].start)} loop(s) {ks} of `{block_fn_name(blk)}` have no loop contract in the template')
        _degraded_fns.append(block_fn_name(blk))
        blk.args['_nodecr'] = '1'
    for k, spec in blk.loops.items():
        l = loops[k]
        sig = src.sig
        if spec.get('binder'):
            ed.insert(sig[l.in_idx].end, f" {spec['binder']}:", 'R0-binder')
        if spec.get('iter_wrap'):
            ed.insert(sig[l.in_idx].end, f" {spec['iter_wrap']}(", 'R13')
            ed.insert(sig[l.open_idx].start, ') ', 'R13')
            _log_missing.append(f"R13 {src.rel}:{src.line_of(sig[l.kw_idx].start)} iterable of `for` loop {k} routed through {spec['iter_wrap']}")
        pieces = []
        for sec, kw in (('invariant_except_break', 'invariant_except_break'), ('invariant', 'invariant'),
                        ('loop_ensures', 'ensures'), ('decreases', 'decreases')):
            if spec.get(sec):
                pieces.extend(_clauses(kw, spec[sec]))
        pos = sig[l.open_idx].start
        if pieces:
            ed.insert(pos, '\n', 'R0-loophdr')
        for p in pieces:
            ed.ed.append((pos, pos, p.text, p.tag))
    for meta, txt in blk.proofs:
        at = meta.get('at')
        body = (txt + '\n') if meta.get('_raw') else ('proof {\n' + txt + '\n}\n')
        if 'loop' in meta:
            if int(meta['loop']) >= len(loops):
                continue
            l = loops[int(meta['loop'])]
            sig = src.sig
            if at == 'body_start':
                ed.insert(sig[l.open_idx].end, '\n' + body, 'proof')
            elif at == 'body_end':
                ed.insert(sig[l.close_idx].start, body, 'proof')
            elif at == 'after':
                ed.insert(sig[l.close_idx].end, '\n' + body, 'proof')
            else:
                raise LiftError(f'template: bad proof placement {meta}')
        elif at in ('fn_start', 'before_tail'):
            pass  # handled by the caller (needs the body-open position)
        else:
            raise LiftError(f'template: bad proof placement {meta}')


def _apply_substs(src, ed, blk, log):
    text = src.text
    from .rustlex import lex as _lex
    for frm, to in blk.substs:
        # token-sequence match: insensitive to whitespace / line breaks / comments in the source
        pat = [t.text for t in _lex(frm, strict=False)[0]]
        if not pat:
            continue
        sig = src.sig
        first = next((k for k, t in enumerate(sig) if t.start >= ed.start), len(sig))
        last = next((k for k, t in enumerate(sig) if t.end > ed.end), len(sig))
        k = first
        hits = 0
        while k + len(pat) <= last:
            if all(sig[k + j].text == pat[j] for j in range(len(pat))):
                if k > 0 and sig[k - 1].text in ('::', ':') and sig[k].kind == 'id' and (sig[k - 1].text == '::' or (k > 1 and sig[k - 2].text == ':' and sig[k - 2].end == sig[k - 1].start)):
                    k += 1   # `x::<pattern>`: the pattern is the tail of a longer path, a different item
                    continue
                a, b = sig[k].start, sig[k + len(pat) - 1].end
                if any(not (b <= x or a >= y) for x, y, _, tg in ed.ed if y > x and tg in ('R-subst', 'R11', 'R15')):
                    k += 1   # already covered by an earlier (higher-priority) substitution
                    continue
                ed.replace(a, b, to, 'R-subst')
                log.append(f'R-subst {src.rel}:{src.line_of(a)} `{frm}` => `{to}`')
                hits += 1
                k += len(pat)
            else:
                k += 1
        if not hits:
            log.append(f'R-subst (not applied, text absent) `{frm}`')


def _body_rewrites(src, ed, lo, hi, loops, blk, log):
    rewrite_tail_continue(src, ed, loops, lo, hi, log)
    rewrite_string_add(src, ed, lo, hi, log)
    rewrite_ctor_fn_value(src, ed, lo, hi, log)
    if blk.shim_methods:
        rewrite_method_shims(src, ed, lo, hi, blk.shim_methods, log)
    if blk.closures:
        annotate_closures(src, ed, lo, hi, blk.closures, log)
    rewrite_closure_tuple_params(src, ed, lo, hi, set(blk.closures.keys()), log)
    if blk.args.get('format') == 'fmt1':
        rewrite_format(src, ed, lo, hi, log, blk.substs)
    if blk.args.get('write') == 'shim':
        rewrite_write(src, ed, lo, hi, log)
    if blk.args.get('desugar_try'):
        rewrite_try(src, ed, lo, hi, log)
    _apply_substs(src, ed, blk, log)
    sig = src.sig
    for pname in blk.args.get('drop_let', '').split(',') if blk.args.get('drop_let') else []:
        done = False
        i = lo
        while i < hi:
            t = sig[i]
            if t.kind == 'id' and t.text == 'let':
                j = i + 1
                if sig[j].text == 'mut':
                    j += 1
                if sig[j].text == pname:
                    while not (sig[j].kind == 'p' and sig[j].text == ';'):
                        if sig[j].kind == 'p' and sig[j].text in '([{':
                            j = sig[j].mate
                        j += 1
                    ed.replace(t.start, sig[j].end, '', 'R6')
                    log.append(f'R6 {src.rel}:{src.line_of(t.start)} `let {pname} = ...;` dropped (becomes a parameter): ' + src.text[t.start:sig[j].end].replace('\n', ' ')[:100])
                    done = True
                    break
            i += 1
        if not done:
            raise LiftError(f'{src.rel}: drop_let: no `let {pname}` in lifted range')


def _apply_outlines(src, ed, lo, hi, blk, fname, log, canary):
    """R7: cut a named struct-literal field initializer out into an external_body function of the listed arguments."""
    sig = src.sig
    segs = []
    for om in blk.outlines:
        field = om['field']
        hit = None
        for i in range(lo, hi - 1):
            t = sig[i]
            if t.kind == 'id' and t.text == field and sig[i + 1].text == ':' and sig[i + 2].text != ':' \
                    and sig[i - 1].kind == 'p' and sig[i - 1].text in '{,':
                hit = i
                break
        if hit is None:
            raise LiftError(f"{src.rel}: outline: no `{field}:` initializer in lifted range")
        j = hit + 2
        while j < hi:
            u = sig[j]
            if u.kind == 'p' and u.text in '([{':
                j = u.mate + 1
                continue
            if u.kind == 'p' and u.text in ',}':
                break
            j += 1
        a, b = sig[hit + 2].start, sig[j - 1].end
        expr = src.text[a:b]
        args = [x.strip() for x in om['args'].split(',')]
        params = om['params']
        pnames = [p.split(':')[0].strip() for p in _split_top(params)]
        body = expr
        for arg, pn in zip(args, pnames):
            if arg not in body:
                raise LiftError(f"{src.rel}: outline `{field}`: argument `{arg}` not in the initializer")
            body = body.replace(arg, pn)
        oname = f"vx_outline_{blk.args.get('emit_impl', '')}_{fname}_{field}".replace('__canary', '')
        ed.replace(a, b, f"{oname}({', '.join(args)})", 'R7')
        if not canary:
            log.append(f"R7 {src.rel}:{src.line_of(a)} initializer of `{field}` outlined into external_body fn {oname}")
            segs.append(Seg(f"#[verifier::external_body]\nfn {oname}({params}) -> {om['ret']} {{\n    {body}\n}}\n", tag='R7'))
    return segs


def _split_top(s):
    out, depth, cur = [], 0, ''
    for ch in s:
        if ch in '<([':
            depth += 1
        elif ch in '>)]':
            depth -= 1
        if ch == ',' and depth == 0:
            out.append(cur)
            cur = ''
        else:
            cur += ch
    if cur.strip():
        out.append(cur)
    return out


def lift_block(blk, log, meta, canary=False):
    """Return list of Segs for one //@lift block."""
    kind, a = blk.kind, blk.args
    src = get_source(a['file'])
    sig = src.sig
    segs = []
    if kind == 'type':
        i, e = src.find_type(a['name'])
        ed = Edits(src, strip_visibility(src, Edits(src, 0, 0), i, log), sig[e].end)
        ed.start = sig[i].start
        # drop attributes and visibility inside the body (R3)
        j = i
        while j <= e:
            t = sig[j]
            if t.kind == 'p' and t.text == '#' and sig[j + 1].text == '[':
                ed.replace(t.start, sig[sig[j + 1].mate].end, '', 'R3')
                log.append(f'R3 {src.rel}:{src.line_of(t.start)} attribute dropped: ' + src.text[t.start:sig[sig[j + 1].mate].end][:60])
                j = sig[j + 1].mate + 1
                continue
            j += 1
        for t in src.trivia:
            if sig[i].start <= t.start < sig[e].end and (t.text.startswith('///') or t.text.startswith('/**')):
                ed.replace(t.start, t.end, '', 'R3')
        if a.get('drop_where'):
            for j in range(i, e + 1):
                if sig[j].kind == 'id' and sig[j].text == 'where':
                    k = j
                    while not (sig[k].kind == 'p' and sig[k].text in ';{'):
                        k += 1
                    ed.replace(sig[j].start, sig[k].start, '', 'R3')
                    log.append(f'R3 {src.rel}:{src.line_of(sig[j].start)} where-clause of type `{a["name"]}` dropped: ' + src.text[sig[j].start:sig[k].start].strip().replace('\n', ' '))
                    break
        pre = a.get('derive')
        if pre:
            segs.append(Seg(f'#[derive({pre})]\n', tag='R3-derive'))
        segs.append(Seg('pub ', tag='R3'))
        segs.extend(ed.render())
        segs.append(Seg('\n', tag='sep'))
        meta['functions'].append({'kind': 'type', 'name': a['name'], 'file': src.rel, 'line': src.line_of(sig[i].start)})
        return segs
    if kind == 'macro':
        i, e = src.find_macro(a['name'])
        ed = Edits(src, sig[i].start, sig[e].end)
        segs.extend(ed.render())
        segs.append(Seg('\n', tag='sep'))
        return segs
    if kind == 'const':
        i, e = src.find_const(a['name'])
        ed = Edits(src, sig[i].start, sig[e].end)
        if sig[i + 2].text == ':' and sig[i + 3].text == '&' and sig[i + 4].text == 'str':
            ed.insert(sig[i + 4].start, "'static ", 'R0-static')  # verus! needs the elided lifetime of a const spelled out
        segs.extend(ed.render())
        segs.append(Seg('\n', tag='sep'))
        return segs

    fi = src.find_fn(a['fn'], impl=a.get('impl'), trait=a.get('trait'), mod=a.get('mod'), nth=int(a.get('nth', 0)))
    if fi.close_idx is None:
        raise LiftError(f"{src.rel}: fn `{a['fn']}` has no body")
    loops = find_loops(src, fi.open_idx + 1, fi.close_idx)
    name = a.get('as', a['fn'])
    extra = '        false,' if canary else None
    if canary:
        name = name + '__canary'

    if kind == 'stub':
        # signature lifted from the real function; body replaced by an opaque one: a trusted callee whose signature follows the code
        ed = Edits(src, sig[fi.fn_idx].start, sig[fi.open_idx].start)
        _sig_rewrite(src, fi, ed, a.get('ret', 'r'), a.get('as'), log)
        if blk.add_generics or blk.add_params:
            raise LiftError('template: stub lifts take no add_generics/add_param')
        _apply_substs(src, ed, blk, log)
        contract = _clauses('requires', blk.requires) + _clauses('ensures', blk.ensures)
        segs.append(Seg('#[verifier::external_body]\n' + ('pub ' if a.get('pub') else ''), tag='stub'))
        segs.extend(ed.render())
        segs.append(Seg('\n', tag='stub'))
        segs.extend(contract)
        segs.append(Seg('{ unimplemented!() }\n\n', tag='stub'))
        log.append(f"stub {src.rel}:{src.line_of(sig[fi.fn_idx].start)} fn `{a['fn']}`: signature lifted, body opaque (trusted callee)")
        meta['functions'].append({'kind': 'stub', 'name': a['fn'], 'as': a.get('as', a['fn']), 'impl': a.get('impl'), 'file': src.rel,
                                  'lines': [src.line_of(sig[fi.fn_idx].start), src.line_of(sig[fi.open_idx].start)], 'sha256_16': '-', 'loops': 0, 'named_clauses': []})
        return segs

    if kind == 'item':
        ed = Edits(src, sig[fi.fn_idx].start, sig[fi.close_idx].end)
        _sig_rewrite(src, fi, ed, a.get('ret', 'r'), name if (canary or 'as' in a) else None, log)
        if blk.add_generics:
            nm = sig[fi.fn_idx + 1]
            if sig[fi.fn_idx + 2].text == '<':
                ed.insert(sig[fi.fn_idx + 2].end, blk.add_generics + ', ', 'R9')
            else:
                ed.insert(nm.end, '<' + blk.add_generics + '>', 'R9')
            log.append(f'R9 {src.rel}:{src.line_of(nm.start)} trait default method lifted as a free function generic over `{blk.add_generics}`')
        if blk.add_params:
            # first `(` after the fn name (and generics) that opens the parameter list
            j = fi.fn_idx + 2
            while not (sig[j].kind == 'p' and sig[j].text == '('):
                if sig[j].kind == 'p' and sig[j].text == '<':
                    depth = 0
                    while True:
                        if sig[j].text == '<':
                            depth += 1
                        elif sig[j].text == '>' and sig[j - 1].text != '-':
                            depth -= 1
                            if depth == 0:
                                break
                        j += 1
                j += 1
            sep = '' if sig[j + 1].text == ')' else ', '
            ed.insert(sig[j].end, ', '.join(blk.add_params) + sep, 'R6')
            log.append(f'R6 {src.rel}:{src.line_of(sig[j].start)} parameter(s) added: ' + ', '.join(blk.add_params))
        lo, hi = fi.open_idx + 1, fi.close_idx
    elif kind == 'let':
        # the initializer expression of the nth `let NAME = EXPR;` anywhere in the function, lifted as the body of a new fn
        want, nth, cnt = a['name'], int(a.get('let_nth', 0)), 0
        lo = hi = None
        for i in range(fi.open_idx + 1, fi.close_idx):
            t = sig[i]
            if t.kind == 'id' and t.text == 'let':
                j = i + 1
                if sig[j].text == 'mut':
                    j += 1
                if sig[j].text == want and sig[j + 1].text in ('=', ':'):
                    if cnt == nth:
                        k = j + 1
                        while sig[k].text != '=':
                            k += 1
                        e = k + 1
                        while not (sig[e].kind == 'p' and sig[e].text == ';'):
                            if sig[e].kind == 'p' and sig[e].text in '([{':
                                e = sig[e].mate
                            e += 1
                        lo, hi = k + 1, e
                        break
                    cnt += 1
        if lo is None:
            raise LiftError(f"{src.rel}: `let {want}` #{nth} not found in fn `{a['fn']}`")
        ed = Edits(src, sig[lo].start, sig[hi - 1].end)
        loops = [l for l in loops if lo <= l.kw_idx < hi]
        header = blk.rest
        header = re.sub(r'\bfn\s+(\w+)', lambda m: 'fn ' + (m.group(1) + ('__canary' if canary else '')), header, count=1)
        log.append(f"R5 {src.rel}:{src.line_of(sig[lo].start)}-{src.line_of(sig[hi - 1].end)} initializer of `let {want}` in fn `{a['fn']}` lifted as `{header.strip()}`")
    elif kind == 'quote':
        # R17: the token text of a `quote!` / `quote_spanned!` invocation (code the macro emits into the user's crate) lifted as the
        # body of a function whose parameters stand for the `#interpolations`. Selected inside fn (optionally inside the
        # initializer of `let=NAME`), by ordinal `nth` among the invocations that follow the `after_nth`-th occurrence of `after=`.
        rlo, rhi = fi.open_idx + 1, fi.close_idx
        if a.get('let'):
            want, found = a['let'], False
            for i in range(fi.open_idx + 1, fi.close_idx):
                if sig[i].kind == 'id' and sig[i].text == 'let':
                    j = i + 1
                    if sig[j].text == 'mut':
                        j += 1
                    if sig[j].text == want and sig[j + 1].text in ('=', ':'):
                        k = j + 1
                        while sig[k].text != '=':
                            k += 1
                        e = k + 1
                        while not (sig[e].kind == 'p' and sig[e].text == ';'):
                            if sig[e].kind == 'p' and sig[e].text in '([{':
                                e = sig[e].mate
                            e += 1
                        rlo, rhi, found = k + 1, e, True
                        break
            if not found:
                raise LiftError(f"{src.rel}: `let {want}` not found in fn `{a['fn']}`")
        if a.get('after'):
            from .rustlex import lex as _lex
            pat = [t.text for t in _lex(a['after'], strict=False)[0]]
            want_n, seen_n, pos = int(a.get('after_nth', 0)), 0, None
            k = rlo
            while k + len(pat) <= rhi:
                if all(sig[k + j].text == pat[j] for j in range(len(pat))):
                    if seen_n == want_n:
                        pos = k + len(pat) - 1
                        break
                    seen_n += 1
                k += 1
            if pos is None:
                raise LiftError(f"{src.rel}: `{a['after']}` #{want_n} not found in fn `{a['fn']}`")
            rlo = pos
        qs = [i for i in range(rlo, rhi - 2) if sig[i].kind == 'id' and sig[i].text in ('quote', 'quote_spanned') and sig[i + 1].text == '!' and sig[i + 2].text in '([{']
        qn = int(a.get('quote_nth', 0))
        if qn >= len(qs):
            raise LiftError(f"{src.rel}: fn `{a['fn']}` has no quote! invocation #{qn} in the selected range")
        qo = qs[qn] + 2
        qc = sig[qo].mate
        lo, hi = qo + 1, qc
        if sig[qs[qn]].text == 'quote_spanned':
            # skip `SPAN_EXPR =>`
            j = lo
            while j < hi and not (sig[j].text == '=' and sig[j + 1].text == '>'):
                if sig[j].kind == 'p' and sig[j].text in '([{':
                    j = sig[j].mate
                j += 1
            lo = j + 2
        if a.get('expr'):
            # only the `expr_nth`-th invocation of the macro named by expr= (e.g. `format!`) inside the template
            mname = a['expr'].rstrip('!')
            es = [j for j in range(lo, hi - 2) if sig[j].kind == 'id' and sig[j].text == mname and sig[j + 1].text == '!' and sig[j + 2].text in '([{']
            en = int(a.get('expr_nth', 0))
            if en >= len(es):
                raise LiftError(f"{src.rel}: the selected quote! template has no `{mname}!` invocation #{en}")
            lo, hi = es[en], sig[es[en] + 2].mate + 1
        if lo >= hi:
            raise LiftError(f"{src.rel}: empty quote! template")
        ed = Edits(src, sig[lo].start, sig[hi - 1].end)
        fmt_ranges = [(j, sig[j + 2].mate) for j in range(lo, hi - 2) if sig[j].kind == 'id' and sig[j].text in ('format', 'write', 'writeln') and sig[j + 1].text == '!' and sig[j + 2].text == '('] if (a.get('format') or a.get('write')) else []
        for j in range(lo, hi):
            if any(x < j < y for x, y in fmt_ranges):
                continue   # inside a format!/write! invocation that R11/R15 replaces as a whole (they drop the `#` of their arguments)
            if sig[j].kind == 'p' and sig[j].text == '#':
                if sig[j + 1].kind != 'id':
                    raise LiftError(f"{src.rel}:{src.line_of(sig[j].start)}: repetition / non-identifier interpolation in a lifted quote! template (outside R17)")
                ed.replace(sig[j].start, sig[j].end, '', 'R17')
        loops = [l for l in loops if lo <= l.kw_idx < hi]
        header = blk.rest
        header = re.sub(r'\bfn\s+(\w+)', lambda m: 'fn ' + (m.group(1) + ('__canary' if canary else '')), header, count=1)
        log.append(f"R17 {src.rel}:{src.line_of(sig[lo].start)}-{src.line_of(sig[hi - 1].end)} quote! template in fn `{a['fn']}` lifted as `{header.strip()}` (interpolations become parameters)")
    elif kind in ('tail', 'loop'):
        if kind == 'tail':
            # statement `let [mut] V ... ;` at depth 1 of the body
            start = fi.open_idx + 1 if a.get('from_start') else None
            i = fi.open_idx + 1
            while i < fi.close_idx and start is None:
                t = sig[i]
                if t.kind == 'p' and t.text in '([{':
                    i = t.mate + 1
                    continue
                if t.kind == 'id' and t.text == 'let':
                    j = i + 1
                    if sig[j].text == 'mut':
                        j += 1
                    if 'from_let' in a and sig[j].text == a['from_let']:
                        start = i
                        break
                    if sig[j].text == a.get('after_let'):
                        while not (sig[j].kind == 'p' and sig[j].text == ';'):
                            if sig[j].kind == 'p' and sig[j].text in '([{':
                                j = sig[j].mate
                            j += 1
                        start = j + 1
                        break
                i += 1
            if start is None:
                raise LiftError(f"{src.rel}: `let {a.get('after_let') or a.get('from_let')}` not found in fn `{a['fn']}`")
            lo, hi = start, fi.close_idx
            if a.get('until_let'):
                # range lift: stop right before the statement `let [mut] <until_let> ...`
                end = None
                i = start
                while i < fi.close_idx:
                    t = sig[i]
                    if t.kind == 'p' and t.text in '([{':
                        i = t.mate + 1
                        continue
                    if t.kind == 'id' and t.text == 'let':
                        j = i + 1
                        if sig[j].text == 'mut':
                            j += 1
                        if sig[j].text in a['until_let'].split('|'):   # first `let` of any of the listed names
                            end = i
                            break
                    i += 1
                if end is None:
                    raise LiftError(f"{src.rel}: `let {a['until_let']}` not found after the start of the lifted range")
                hi = end
        else:
            k = int(a['index'])
            if k >= len(loops):
                raise LiftError(f"{src.rel}: fn `{a['fn']}` has no loop {k}")
            lo, hi = loops[k].kw_idx, loops[k].close_idx + 1
        ed = Edits(src, sig[lo].start, sig[hi - 1].end if kind == 'loop' else sig[hi].start)
        loops = [l for l in loops if lo <= l.kw_idx < hi]   # loop ordinals of a block lift are relative to the block
        header = blk.rest
        if canary or True:
            header = re.sub(r'\bfn\s+(\w+)', lambda m: 'fn ' + (m.group(1) + ('__canary' if canary else '')), header, count=1)
        log.append(f"R5 {src.rel}:{src.line_of(sig[lo].start)}-{src.line_of(sig[hi - 1].end)} block of fn `{a['fn']}` lifted as `{header.strip()}`")
    else:
        raise LiftError(f'template: unknown lift kind {kind}')

    if kind != 'item':
        for m_, txt in blk.proofs:
            if m_.get('at') == 'before_tail' and 'loop' not in m_:
                j, lastsemi = lo, None
                while j < hi:
                    t = sig[j]
                    if t.kind == 'p' and t.text in '([{':
                        j = t.mate + 1
                        continue
                    if t.kind == 'p' and t.text == ';':
                        lastsemi = j
                    j += 1
                if lastsemi is not None:
                    ed.insert(sig[lastsemi].end, ('\n' + txt + '\n') if m_.get('_raw') else ('\nproof {\n' + txt + '\n}\n'), 'proof')
    _body_rewrites(src, ed, lo, hi, loops, blk, log)
    outline_segs = _apply_outlines(src, ed, lo, hi, blk, name, log, canary)
    _apply_loop_contracts(src, ed, [l for l in loops], blk, canary)

    contract = []
    contract += _clauses('requires', blk.requires)
    contract += _clauses('ensures', blk.ensures, extra)
    if blk.fn_decreases:
        contract += _clauses('decreases', [(None, blk.fn_decreases)])

    if kind == 'item':
        pos = sig[fi.open_idx].start
        if contract:
            ed.insert(pos, '\n', 'R0')
        for p in contract:
            ed.ed.append((pos, pos, p.text, p.tag))
        for m_, txt in blk.proofs:
            if m_.get('at') == 'fn_start':
                ed.insert(sig[fi.open_idx].end, ('\n' + txt + '\n') if m_.get('_raw') else ('\nproof {\n' + txt + '\n}\n'), 'proof')
            elif m_.get('at') == 'before_tail' and 'loop' not in m_:
                # after the last `;` at depth 1 of the body, i.e. right before the tail expression
                j, lastsemi = fi.open_idx + 1, None
                while j < fi.close_idx:
                    t = sig[j]
                    if t.kind == 'p' and t.text in '([{':
                        j = t.mate + 1
                        continue
                    if t.kind == 'p' and t.text == ';':
                        lastsemi = j
                    j += 1
                if lastsemi is not None:
                    ed.insert(sig[lastsemi].end, ('\n' + txt + '\n') if m_.get('_raw') else ('\nproof {\n' + txt + '\n}\n'), 'proof')
        body = ed.render()
        if a.get('loop_isolation') == '0':
            body = [Seg('#[verifier::loop_isolation(false)]\n', tag='R0-attr')] + body
        if a.get('_nodecr'):
            body = [Seg('#[verifier::exec_allows_no_decreases_clause]\n', tag='R0-attr')] + body
        impl_hdr = a.get('emit_impl', a.get('impl'))
        if a.get('free') or not impl_hdr:
            segs.extend(body)
        else:
            segs.append(Seg(f'impl {impl_hdr} {{\n', tag='R0-impl'))
            segs.extend(body)
            segs.append(Seg('\n}\n', tag='R0-impl'))
    else:
        if a.get('loop_isolation') == '0':
            segs.append(Seg('#[verifier::loop_isolation(false)]\n', tag='R0-attr'))
        if a.get('_nodecr'):
            segs.append(Seg('#[verifier::exec_allows_no_decreases_clause]\n', tag='R0-attr'))
        segs.append(Seg(header.strip() + '\n', tag='R5-header'))
        segs.extend(contract)
        segs.append(Seg('{\n', tag='R5'))
        for m_, txt in blk.proofs:
            if m_.get('at') == 'fn_start':
                segs.append(Seg((txt + '\n') if m_.get('_raw') else ('proof {\n' + txt + '\n}\n'), tag='proof'))
        if a.get('wrap_ok'):
            segs.append(Seg('Ok(\n', tag='R5'))
        segs.extend(ed.render())
        if a.get('wrap_ok'):
            segs.append(Seg('\n)', tag='R5'))
        if a.get('tail_expr'):
            segs.append(Seg('\n' + a['tail_expr'] + '\n', tag='R5'))
        segs.append(Seg('\n}\n', tag='R5'))
    segs.extend(outline_segs)
    segs.append(Seg('\n', tag='sep'))
    raw = src.text[sig[lo].start:sig[hi - 1].end]
    meta['functions'].append({
        'kind': kind, 'name': a['fn'], 'as': name, 'fn_emitted': block_fn_name(blk), 'impl': a.get('impl') or a.get('trait'),
        'file': src.rel, 'lines': [src.line_of(sig[lo].start), src.line_of(sig[hi - 1].end)],
        'sha256_16': hashlib.sha256(raw.encode()).hexdigest()[:16], 'loops': len(loops),
        'named_clauses': [n for n, _ in blk.requires + blk.ensures if n] +
                         [n for sp in blk.loops.values() for sec in ('invariant', 'invariant_except_break', 'loop_ensures')
                          for n, _ in sp.get(sec, []) if n],
    })
    return segs


def assemble(template_path, canary=False, extra_shims=None, havoc_decls=None, degrade=False, extra_consts=None):
    """Return (text, linetable, meta). linetable[i] describes output line i+1."""
    text = open(template_path, encoding='utf-8').read()
    if extra_consts:
        # crate-level constants the lifted code has started to mention (auto-lift, requested by the driver after a front-end error)
        extra = ''.join(f'//@lift const file={f} name={n}\n//@end\n' for f, n in extra_consts)
        m = re.search(r'(?m)^verus! \{[^\n]*\n', text)
        if m:
            text = text[:m.end()] + extra + text[m.end():]
    # shared contract fragments (the same lifted function + contract is verified in every unit that relies on it)
    def _frag(m):
        return open(os.path.join(VERIF, 'units', 'frag', m.group(1) + '.vrs'), encoding='utf-8').read()
    text = re.sub(r'(?m)^//@fragment (\w+)\s*$', _frag, text)
    log = []
    meta = {'functions': [], 'includes': []}
    segs = []
    for kind, val in parse_template(text):
        if kind == 'text':
            segs.append(Seg(val, file='template:' + os.path.basename(template_path), line=0))
        elif kind == 'include':
            p = os.path.join(VERIF, 'spec', val)
            modname = os.path.splitext(os.path.basename(val))[0]
            segs.append(Seg(f'pub mod {modname} {{\n#[allow(unused_imports)] use super::*;\n#[allow(unused_imports)] use vstd::prelude::*;\n'
                            '#[allow(unused_imports)] use vstd::std_specs::iter::IteratorSpec;\n', tag='include'))
            segs.append(Seg(open(p, encoding='utf-8').read() + '\n', file='spec/' + val, line=1))
            segs.append(Seg(f'}}\n#[allow(unused_imports)] pub use {modname}::*;\n', tag='include'))
            meta['includes'].append('spec/' + val)
        else:
            if degrade and val.kind in ('item', 'tail', 'loop', 'let', 'quote') and (degrade is True or block_fn_name(val) in degrade):
                # degraded mode: the ghost text (invariants, hints, ghost lets) no longer type-checks against the lifted code
                # (e.g. a local changed its type): judge the function on requires/ensures alone; termination measures stay
                for k2, sp in val.loops.items():
                    for sec in ('invariant', 'invariant_except_break', 'loop_ensures'):
                        sp.pop(sec, None)
                val.proofs = []
                val.args['_nodecr'] = '1'
                _degraded_fns.append(block_fn_name(val))
            if extra_shims and val.kind in ('item', 'tail', 'loop', 'let', 'quote'):
                for k, v in extra_shims.items():
                    val.shim_methods.setdefault(k, v)
            try:
                if canary and val.kind in ('item', 'tail', 'loop', 'let', 'quote') and val.args.get('canary', '1') != '0':
                    s1 = lift_block(val, log, meta, canary=False)
                    dummy = {'functions': [], 'includes': []}
                    s2 = lift_block(val, [], dummy, canary=True)
                    segs.extend(s1)
                    segs.extend(s2)
                else:
                    segs.extend(lift_block(val, log, meta))
            except LiftError as e:
                if val.kind in ('let', 'tail', 'loop', 'quote') and val.args.get('optional', '1') != '0':
                    # the anchor of one block lift is gone: the other functions of the unit are still judged; this block is undecided
                    names = [n for n, _ in val.requires + val.ensures if n]
                    meta.setdefault('lost_anchors', []).append({'msg': str(e), 'clauses': names})
                else:
                    raise
    if havoc_decls:
        # std functions the lifted text calls but the contract library does not know: unconstrained specifications pasted
        # from the verifier's own suggestion (driver/core.py: failures in such a run need a replayed counterexample)
        body = '\n'.join(havoc_decls)
        main_pos = next((k for k in range(len(segs) - 1, -1, -1) if 'fn main()' in segs[k].text), None)
        hv = Seg('pub mod vx_auto_havoc {\n#[allow(unused_imports)] use super::*;\n#[allow(unused_imports)] use vstd::prelude::*;\nverus! {\n'
                 + body + '\n} // verus!\n}\n', tag='auto-havoc')
        segs.append(hv)
    out = []
    table = []
    for s in segs:
        if not s.text:
            continue
        nl = s.text.count('\n')
        parts = s.text.split('\n')
        for k, part in enumerate(parts):
            last = k == len(parts) - 1
            if last and part == '':
                break
            entry = {'file': s.file, 'line': (s.line + k) if s.file and s.line else None, 'tag': s.tag}
            if out and not out[-1].endswith('\n'):
                out[-1] += part + ('' if last else '\n')
                # keep the earlier line's entry, but prefer a source origin / named tag
                if table[-1].get('tag') in (None, 'sep') and entry['tag']:
                    table[-1]['tag'] = entry['tag']
                if table[-1]['file'] is None and entry['file'] and not entry['file'].startswith('template:'):
                    table[-1]['file'], table[-1]['line'] = entry['file'], entry['line']
            else:
                out.append(part + ('' if last else '\n'))
                table.append(entry)
    meta['lift_rewrites'] = log + ['R0 ' + x for x in _log_missing]
    meta['structure_changed'] = any('STRUCTURE-CHANGED' in x for x in _log_missing)
    meta['degraded_fns'] = sorted(set(_degraded_fns))
    del _log_missing[:]
    del _degraded_fns[:]
    return ''.join(out), table, meta
