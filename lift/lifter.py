"""Mechanical lifter: cuts items / loops / tails out of /repo source files and splices contracts.

Output is a list of Segments; every output line is either verbatim source (with its origin file:line)
or inserted text (with a tag such as the clause's obligation name).  See DESIGN.md section 3 for the
closed list of rewrites (R0..R10); each applied rewrite is appended to `log`.
"""
import re
from dataclasses import dataclass, field
from .rustlex import lex, LexError, Tok


class LiftError(Exception):
    """Anchor lost / construct outside the liftable subset: the run is UNDECIDED (exit 2)."""


@dataclass
class Seg:
    text: str
    file: str = None       # origin file for verbatim source
    line: int = 0          # 1-based origin line of first char
    tag: str = None        # for inserted text: clause name or rewrite id


class Source:
    def __init__(self, path, relpath=None):
        self.path = path
        self.rel = relpath or path
        with open(path, encoding='utf-8') as f:
            self.text = f.read()
        try:
            self.sig, self.trivia = lex(self.text)
        except LexError as e:
            raise LiftError(f'{self.rel}: cannot lex: {e}')
        # line starts
        self._ls = [0]
        for m in re.finditer('\n', self.text):
            self._ls.append(m.end())

    def line_of(self, off):
        import bisect
        return bisect.bisect_right(self._ls, off)

    # ---------------------------------------------------------------- containers
    def _container_ranges(self, impl=None, trait=None, mod=None):
        """Yield (lo, hi) token index ranges (exclusive of braces) in which to search."""
        sig = self.sig
        if impl is None and trait is None and mod is None:
            yield (0, len(sig), 0)
            return
        want = re.sub(r'\s+', '', impl or trait or mod)
        kw = 'impl' if impl else ('trait' if trait else 'mod')
        i = 0
        found = False
        while i < len(sig):
            t = sig[i]
            if t.kind == 'id' and t.text == kw:
                # header up to the opening brace
                j = i + 1
                while j < len(sig) and not (sig[j].kind == 'p' and sig[j].text in '{;'):
                    if sig[j].kind == 'p' and sig[j].text in '([':
                        j = sig[j].mate
                    j += 1
                if j < len(sig) and sig[j].text == '{':
                    hdr = ''.join(x.text for x in sig[i + 1:j])
                    # for traits/impls allow a trailing where clause / supertraits / generics to be ignored
                    hdr_cmp = hdr
                    if kw == 'impl':
                        hdr_cmp = re.sub(r'^<[^>]*>', '', hdr)  # leading generics
                        hdr_cmp = hdr_cmp.split('where')[0]
                    if kw == 'trait':
                        hdr_cmp = re.split(r'[:<]|where', hdr)[0]
                    if hdr_cmp == want or hdr == want:
                        found = True
                        yield (j + 1, sig[j].mate, 1)
                    # descend (modules may contain impls): continue scanning inside
            i += 1
        if not found:
            raise LiftError(f'{self.rel}: no `{kw} {impl or trait or mod}` block')

    def _depth_walk(self, lo, hi):
        """Yield token indices in [lo,hi) that are at nesting depth 0 relative to lo."""
        sig = self.sig
        i = lo
        while i < hi:
            t = sig[i]
            yield i
            if t.kind == 'p' and t.text in '([{' and t.mate > i:
                i = t.mate
            else:
                i += 1

    # ---------------------------------------------------------------- items
    def find_fn(self, name, impl=None, trait=None, mod=None, nth=0):
        sig = self.sig
        hits = []
        for lo, hi, _ in self._container_ranges(impl, trait, mod):
            for i in self._depth_walk(lo, hi):
                if sig[i].kind == 'id' and sig[i].text == 'fn' and i + 1 < hi and sig[i + 1].text in (name, 'r#' + name):
                    hits.append(i)
        if len(hits) <= nth:
            raise LiftError(f'{self.rel}: fn `{name}` not found' + (f' in `{impl or trait or mod}`' if (impl or trait or mod) else ''))
        if len(hits) > 1 and nth == 0 and not (impl or trait or mod):
            # ambiguous free function name: require a container
            pass
        i = hits[nth]
        # body: first `{` at depth 0 after the fn keyword (or `;` for declarations)
        j = i + 2
        while j < len(sig):
            t = sig[j]
            if t.kind == 'p' and t.text in '([':
                j = t.mate + 1
                continue
            if t.kind == 'p' and t.text == '{':
                break
            if t.kind == 'p' and t.text == ';':
                return FnItem(self, i, j, None)
            j += 1
        else:
            raise LiftError(f'{self.rel}: fn `{name}` has no body')
        return FnItem(self, i, j, sig[j].mate)

    def find_type(self, name):
        """`struct NAME ...` / `enum NAME ...` item: returns (kw_idx, end_idx_inclusive)."""
        sig = self.sig
        for i, t in enumerate(sig):
            if t.kind == 'id' and t.text in ('struct', 'enum') and i + 1 < len(sig) and sig[i + 1].text == name:
                j = i + 2
                while j < len(sig):
                    u = sig[j]
                    if u.kind == 'p' and u.text == '{':
                        return (i, u.mate)
                    if u.kind == 'p' and u.text == '(':
                        j = u.mate + 1
                        continue
                    if u.kind == 'p' and u.text == ';':
                        return (i, j)
                    j += 1
        raise LiftError(f'{self.rel}: type `{name}` not found')

    def find_macro(self, name):
        sig = self.sig
        for i, t in enumerate(sig):
            if t.kind == 'id' and t.text == 'macro_rules' and sig[i + 1].text == '!' and sig[i + 2].text == name:
                o = i + 3
                return (i, sig[o].mate)
        raise LiftError(f'{self.rel}: macro `{name}` not found')

    def find_const(self, name):
        sig = self.sig
        for i, t in enumerate(sig):
            if t.kind == 'id' and t.text in ('const', 'static') and sig[i + 1].text == name:
                j = i
                while not (sig[j].kind == 'p' and sig[j].text == ';'):
                    if sig[j].kind == 'p' and sig[j].text in '([{':
                        j = sig[j].mate
                    j += 1
                return (i, j)
        raise LiftError(f'{self.rel}: const `{name}` not found')


@dataclass
class FnItem:
    src: Source
    fn_idx: int
    open_idx: int           # body `{` (or `;` for a declaration)
    close_idx: int          # body `}`


@dataclass
class LoopInfo:
    kw_idx: int
    kind: str               # for / while / loop
    in_idx: int             # for `for`: index of `in`
    open_idx: int
    close_idx: int


def find_loops(src: Source, lo, hi):
    """All loops (source order) between token indices lo..hi."""
    sig = src.sig
    out = []
    for i in range(lo, hi):
        t = sig[i]
        if t.kind != 'id' or t.text not in ('for', 'while', 'loop'):
            continue
        if t.text == 'for' and sig[i + 1].kind == 'p' and sig[i + 1].text == '<':
            continue  # for<'a>
        prev = sig[i - 1]
        if prev.kind == 'life' or (prev.kind == 'p' and prev.text == ':' and sig[i - 2].kind == 'life'):
            pass  # labelled loop: keyword is still the anchor
        # body open: first `{` at depth 0 after keyword
        j = i + 1
        in_idx = -1
        while j < hi:
            u = sig[j]
            if u.kind == 'p' and u.text in '([':
                j = u.mate + 1
                continue
            if u.kind == 'id' and u.text == 'in' and t.text == 'for' and in_idx < 0:
                in_idx = j
            if u.kind == 'p' and u.text == '{':
                break
            j += 1
        else:
            raise LiftError(f'{src.rel}: loop at line {src.line_of(t.start)} has no body')
        if t.text == 'for' and in_idx < 0:
            continue  # `impl X for Y` inside a fn body, not a loop
        out.append(LoopInfo(i, t.text, in_idx, j, sig[j].mate))
    return out


class Edits:
    """Edits on a source slice expressed in absolute offsets; rendered to segments."""

    def __init__(self, src: Source, start, end):
        self.src, self.start, self.end = src, start, end
        self.ed = []  # (pos, end, text, tag)

    def insert(self, pos, text, tag):
        self.ed.append((pos, pos, text, tag))

    def replace(self, a, b, text, tag):
        self.ed.append((a, b, text, tag))

    def render(self):
        segs = []
        cur = self.start
        # stable sort: by position, insertion order preserved
        for a, b, text, tag in sorted(self.ed, key=lambda e: (e[0], e[1] != e[0])):
            if a < cur:
                raise LiftError(f'{self.src.rel}: overlapping rewrites near line {self.src.line_of(a)}')
            if a > cur:
                segs.append(Seg(self.src.text[cur:a], self.src.rel, self.src.line_of(cur)))
            if text:
                segs.append(Seg(text, tag=tag))
            cur = b
        if cur < self.end:
            segs.append(Seg(self.src.text[cur:self.end], self.src.rel, self.src.line_of(cur)))
        return segs


# -------------------------------------------------------------------------- rewrites on a token range

def rewrite_tail_continue(src, ed, loops, lo, hi, log):
    """R1: delete `continue;` in tail position of a `for` loop body."""
    sig = src.sig
    for i in range(lo, hi):
        t = sig[i]
        if t.kind == 'id' and t.text == 'continue':
            # innermost enclosing loop
            enc = [l for l in loops if l.open_idx < i < l.close_idx]
            if not enc:
                raise LiftError(f'{src.rel}:{src.line_of(t.start)}: continue outside lifted loop')
            l = max(enc, key=lambda l: l.open_idx)
            if l.kind != 'for':
                continue  # Verus accepts continue in while/loop
            j = i + 1
            if sig[j].text == ';':
                j += 1
            ok = _is_tail_position(sig, j, l.close_idx)
            if not ok and sig[i + 1].kind != 'life':
                # R1b: `if COND { continue; } REST` directly in the loop body -> `if COND { } else { REST }`
                blk_open = i - 1
                if sig[blk_open].text == '{' and sig[blk_open].mate == j and sig[j].text == '}':
                    # the block holds only `continue;`: find the `if` that owns it, at depth 1 of the loop body
                    k = blk_open - 1
                    depth_ok = False
                    while k > l.open_idx:
                        if sig[k].kind == 'p' and sig[k].text in ')]}':
                            k = sig[k].mate - 1
                            continue
                        if sig[k].kind == 'id' and sig[k].text == 'if':
                            depth_ok = _depth1(sig, l.open_idx, k) and not (sig[k - 1].kind == 'id' and sig[k - 1].text == 'else')
                            break
                        if sig[k].kind == 'p' and sig[k].text in ';{':
                            break
                        k -= 1
                    nxt = j + 1
                    if depth_ok and not (sig[nxt].kind == 'id' and sig[nxt].text == 'else'):
                        endpos = sig[i + 1].end if sig[i + 1].text == ';' else t.end
                        ed.replace(t.start, endpos, '', 'R1')
                        ed.insert(sig[j].end, ' else {', 'R1')
                        ed.insert(sig[l.close_idx].start, '}\n', 'R1')
                        log.append(f'R1b {src.rel}:{src.line_of(t.start)} `if c {{ continue; }} rest` rewritten as `if c {{ }} else {{ rest }}`')
                        continue
            if not ok or sig[i + 1].kind == 'life':
                raise LiftError(f'{src.rel}:{src.line_of(t.start)}: non-tail `continue` in a for loop (outside the liftable subset, R1)')
            endpos = sig[i + 1].end if sig[i + 1].text == ';' else t.end
            ed.replace(t.start, endpos, '', 'R1')
            log.append(f'R1 {src.rel}:{src.line_of(t.start)} tail `continue;` deleted')


def _depth1(sig, open_idx, k):
    """True iff token k sits directly in the block opened at open_idx (not inside a nested bracket)."""
    j = open_idx + 1
    while j < k:
        if sig[j].kind == 'p' and sig[j].text in '([{':
            if sig[j].mate > k:
                return False
            j = sig[j].mate + 1
            continue
        j += 1
    return True


def _is_tail_position(sig, j, loop_close):
    """From token j (just after `continue;`): only closing braces and else-branches until loop_close."""
    while j < loop_close:
        t = sig[j]
        if t.kind == 'p' and t.text == '}':
            j += 1
            # optional else / else if ... { ... }
            while j < loop_close and sig[j].kind == 'id' and sig[j].text == 'else':
                j += 1
                while not (sig[j].kind == 'p' and sig[j].text == '{'):
                    if sig[j].kind == 'p' and sig[j].text in '([':
                        j = sig[j].mate
                    j += 1
                j = sig[j].mate + 1
            continue
        return False
    return True


_STOP_LEFT = {';', '{', '}', '=', ',', '(', '['}
_STOP_RIGHT = {';', ',', ')', '}', ']'}


def rewrite_string_add(src, ed, lo, hi, log):
    """R2: `L + &R` -> vx_string_add(L, &R). Operands delimited by statement/argument boundaries."""
    sig = src.sig
    for i in range(lo, hi):
        t = sig[i]
        if not (t.kind == 'p' and t.text == '+' and sig[i + 1].kind == 'p' and sig[i + 1].text == '&'):
            continue
        if sig[i + 1].end != sig[i + 2].start and False:
            pass
        # left operand
        a = i - 1
        while a >= lo:
            u = sig[a]
            if u.kind == 'p' and u.text in ')]}' and u.mate >= 0:
                a = u.mate - 1
                continue
            if u.kind == 'p' and u.text in _STOP_LEFT:
                break
            if u.kind == 'p' and u.text == '>' and sig[a - 1].text == '=':
                break
            if u.kind == 'id' and u.text in ('return', 'else', 'in'):
                break
            a -= 1
        left_start = sig[a + 1].start
        b = i + 1
        while b < hi:
            u = sig[b]
            if u.kind == 'p' and u.text in '([{' and u.mate >= 0:
                b = u.mate + 1
                continue
            if u.kind == 'p' and u.text in _STOP_RIGHT:
                break
            if u.kind == 'p' and u.text == '+':
                raise LiftError(f'{src.rel}:{src.line_of(t.start)}: chained `+` on strings (R2 subset)')
            b += 1
        right_end = sig[b - 1].end
        ed.insert(left_start, 'vx_string_add(', 'R2')
        ed.replace(t.start, t.end, ',', 'R2')
        ed.insert(right_end, ')', 'R2')
        log.append(f'R2 {src.rel}:{src.line_of(t.start)} `String + &str` routed through vx_string_add')


def rewrite_ctor_fn_value(src, ed, lo, hi, log):
    """R8: `.map_err(A::B)` / `.map(A::B)` with B capitalised -> closure."""
    sig = src.sig
    for i in range(lo, hi - 6):
        if sig[i].kind == 'id' and sig[i].text in ('map_err', 'map', 'ok_or_else', 'and_then') and sig[i + 1].text == '(':
            o = i + 1
            inner = sig[o + 1:sig[o].mate]
            txt = ''.join(x.text for x in inner)
            m = re.fullmatch(r'([A-Za-z_][A-Za-z0-9_]*)::([A-Z][A-Za-z0-9_]*)', txt)
            if m and inner:
                ed.replace(inner[0].start, inner[-1].end, f'|e| {m.group(1)}::{m.group(2)}(e)', 'R8')
                log.append(f'R8 {src.rel}:{src.line_of(sig[i].start)} constructor `{txt}` eta-expanded')


def strip_visibility(src, ed, idx, log):
    """Drop `pub`, `pub(crate)`, `pub(super)` immediately before token idx; return new start offset."""
    sig = src.sig
    k = idx - 1
    if k >= 0 and sig[k].kind == 'p' and sig[k].text == ')' and sig[sig[k].mate - 1].text == 'pub':
        return sig[sig[k].mate - 1].start
    if k >= 0 and sig[k].kind == 'id' and sig[k].text == 'pub':
        return sig[k].start
    return sig[idx].start


def _angle_open(sig, i, lo):
    """sig[i] is `>`: index of the matching `<` (scanning backwards), or -1."""
    depth = 0
    j = i
    while j >= lo:
        if sig[j].kind == 'p' and sig[j].text == '>' and not (sig[j - 1].text == '-' and sig[j - 1].end == sig[j].start):
            depth += 1
        elif sig[j].kind == 'p' and sig[j].text == '<':
            depth -= 1
            if depth == 0:
                return j
        j -= 1
    return -1


def postfix_chain_start(sig, i, lo):
    """Token index where the postfix expression ending at token i (inclusive) starts."""
    KW = ('return', 'in', 'else', 'match', 'if', 'let', 'while', 'for', 'break')
    while i >= lo:
        t = sig[i]
        if t.kind == 'p' and t.text in ')]' and t.mate >= 0:
            i = t.mate - 1        # call / index: callee or receiver continues to the left
            if i < lo:
                return lo
            u = sig[i]
            if u.kind == 'p' and u.text == '!':          # macro call: name!(..)
                i -= 1
                continue
            if u.kind in ('id', 'num', 'str') and u.text not in KW:
                continue
            if u.kind == 'p' and u.text in ')]?':
                continue
            if u.kind == 'p' and u.text == '>':           # turbofish: f::<T>(..)
                continue
            return i + 1                                   # parenthesised primary
        elif t.kind in ('id', 'num', 'str', 'char'):
            if t.text in KW:
                return i + 1
            i -= 1
        elif t.kind == 'p' and t.text == '?':
            i -= 1
            continue
        elif t.kind == 'p' and t.text == '>':
            j = _angle_open(sig, i, lo)
            if j < 0:
                return i + 1
            i = j - 1
            if i >= lo + 1 and sig[i].text == ':' and sig[i - 1].text == ':':
                i -= 2                                     # `Foo::<T>`: continue with Foo
                continue
            if i >= lo and sig[i].kind == 'id' and sig[i].text not in KW:
                continue                                   # `Foo<T>::f`
            return j                                       # `<T as Trait>::f`
        else:
            return i + 1
        # after a primary: `.` or `::` continues the chain
        if i >= lo and sig[i].kind == 'p' and sig[i].text == '.':
            i -= 1
            continue
        if i >= lo + 1 and sig[i].kind == 'p' and sig[i].text == ':' and sig[i - 1].text == ':':
            i -= 2
            continue
        return i + 1
    return lo


def rewrite_try(src, ed, lo, hi, log):
    """R14: `EXPR?` -> `(match EXPR { Ok(v) => v, Err(e) => return Err(From::from(e)) })` (the language's own desugaring)."""
    sig = src.sig
    # innermost-first is not needed: nested `?` inside EXPR are rewritten by their own edits at disjoint positions
    for i in range(lo, hi):
        t = sig[i]
        if t.kind == 'p' and t.text == '?':
            a = postfix_chain_start(sig, i - 1, lo)
            ed.insert(sig[a].start, '(match ', 'R14')
            ed.replace(t.start, t.end, ' { Ok(vx_v) => vx_v, Err(vx_e) => return Err(core::convert::From::from(vx_e)) })', 'R14')
            log.append(f'R14 {src.rel}:{src.line_of(t.start)} `?` desugared')


def _split_top_commas(sig, a0, a1):
    """Token index ranges [(x0, x1)) of the top-level comma separated arguments between a0 and a1."""
    out, start, j = [], a0, a0
    while j < a1:
        t = sig[j]
        if t.kind == 'p' and t.text in '([{':
            j = t.mate + 1
            continue
        if t.kind == 'p' and t.text == ',':
            out.append((start, j))
            start = j + 1
        j += 1
    if start < a1:
        out.append((start, a1))
    return out


def rewrite_format(src, ed, lo, hi, log, substs=()):
    """R11: `format!(LIT, args..)` with up to four plain placeholders (`{}` / `{name}`) -> vx_fmtN(P0, &(A1), P1, .., &(AN), PN)."""
    import re as _re
    sig = src.sig
    for i in range(lo, hi - 2):
        if not (sig[i].kind == 'id' and sig[i].text == 'format' and sig[i + 1].text == '!' and sig[i + 2].text == '('):
            continue
        o = i + 2
        c = sig[o].mate
        lit = sig[o + 1]
        if lit.kind != 'str':
            raise LiftError(f'{src.rel}:{src.line_of(sig[i].start)}: format! without a literal (R11 subset)')
        m = _re.fullmatch(r'(r(#*)")(.*)("#*)', lit.text, _re.S) if lit.text.startswith('r') else _re.fullmatch(r'(")()(.*)(")', lit.text, _re.S)
        if not m:
            raise LiftError(f'{src.rel}:{src.line_of(lit.start)}: unsupported format literal')
        openq, body, closeq = m.group(1), m.group(3), m.group(4)
        marked = body.replace('{{', '\x00').replace('}}', '\x01')
        ph = list(_re.finditer(r'\{([A-Za-z_][A-Za-z0-9_]*)?\}', marked))
        if marked.count('{') != len(ph) or len(ph) > 4:
            raise LiftError(f'{src.rel}:{src.line_of(lit.start)}: format! with format specs or more than four placeholders (R11 subset)')
        unesc = lambda x: x.replace('\x00', '{').replace('\x01', '}')
        pieces, last = [], 0
        for q in ph:
            pieces.append(unesc(marked[last:q.start()]))
            last = q.end()
        pieces.append(unesc(marked[last:]))
        explicit = _split_top_commas(sig, o + 2, c) if sig[o + 2].text == ',' else []
        if sig[o + 2].text == ',':
            explicit = _split_top_commas(sig, o + 3, c)
        elif sig[o + 2].text != ')':
            raise LiftError(f'{src.rel}:{src.line_of(lit.start)}: unexpected token after the format literal')
        args, k = [], 0
        for q in ph:
            if q.group(1):
                args.append(q.group(1))
            else:
                if k >= len(explicit):
                    raise LiftError(f'{src.rel}:{src.line_of(lit.start)}: positional placeholder without argument')
                x0, x1 = explicit[k]
                args.append(src.text[sig[x0].start:sig[x1 - 1].end])
                k += 1
        if k != len(explicit):
            raise LiftError(f'{src.rel}:{src.line_of(lit.start)}: format! arguments that no placeholder uses (named arguments are outside R11)')
        # the arguments are re-emitted as text: the block's substitutions apply to them here (whitespace-insensitive)
        from .rustlex import lex as _lex
        def _norm(x):
            return ' '.join(t.text for t in _lex(x, strict=False)[0])
        for frm, to in substs or ():
            nf = _norm(frm)
            for k_, a_ in enumerate(args):
                na = _norm(a_)
                if nf and nf in na:
                    args[k_] = na.replace(nf, to)
                    log.append(f'R-subst {src.rel}:{src.line_of(sig[i].start)} `{frm}` => `{to}` (inside a format! argument)')
        # (inside a lifted quote! template the arguments still carry their `#interpolation` marks: dropped here, R17)
        args = [_re.sub(r'#\s*(?=[A-Za-z_])', '', a_) for a_ in args]
        call = f'vx_fmt{len(ph)}(' + f'{openq}{pieces[0]}{closeq}'
        for a_, p_ in zip(args, pieces[1:]):
            call += f', &({a_}), {openq}{p_}{closeq}'
        call += ')'
        ed.replace(sig[i].start, sig[c].end, call, 'R11')
        log.append(f'R11 {src.rel}:{src.line_of(sig[i].start)} format! with {len(ph)} placeholder(s) routed through vx_fmt{len(ph)}')


def rewrite_write(src, ed, lo, hi, log):
    """R15: `write!(W, LIT [, arg])` / `writeln!(W [, LIT [, arg]])` with at most one plain placeholder ->
    vx_write0/1 / vx_writeln0/1(W, pieces..) (fmt::Write for String)."""
    import re as _re
    sig = src.sig
    for i in range(lo, hi - 2):
        if not (sig[i].kind == 'id' and sig[i].text in ('write', 'writeln') and sig[i + 1].text == '!' and sig[i + 2].text == '('):
            continue
        ln = sig[i].text == 'writeln'
        o = i + 2
        c = sig[o].mate
        # receiver: tokens up to the first top-level comma (or the close paren)
        j = o + 1
        while j < c and not (sig[j].kind == 'p' and sig[j].text == ','):
            if sig[j].kind == 'p' and sig[j].text in '([{':
                j = sig[j].mate
            j += 1
        recv = src.text[sig[o + 1].start:sig[j - 1].end]
        if j >= c:
            if not ln:
                raise LiftError(f'{src.rel}:{src.line_of(sig[i].start)}: write! without a format literal')
            ed.replace(sig[i].start, sig[c].end, f'vx_writeln0({recv}, "")', 'R15')
            log.append(f'R15 {src.rel}:{src.line_of(sig[i].start)} writeln!(w) routed through vx_writeln0')
            continue
        lit = sig[j + 1]
        if lit.kind != 'str':
            raise LiftError(f'{src.rel}:{src.line_of(sig[i].start)}: write! without a literal (R15 subset)')
        m = _re.fullmatch(r'(r(#*)")(.*)("#*)', lit.text, _re.S) if lit.text.startswith('r') else _re.fullmatch(r'(")()(.*)(")', lit.text, _re.S)
        if not m:
            raise LiftError(f'{src.rel}:{src.line_of(lit.start)}: unsupported format literal')
        openq, body, closeq = m.group(1), m.group(3), m.group(4)
        marked = body.replace('{{', '\x00').replace('}}', '\x01')
        ph = list(_re.finditer(r'\{([A-Za-z_][A-Za-z0-9_]*)?\}', marked))
        if len(ph) > 1 or marked.count('{') != len(ph):
            raise LiftError(f'{src.rel}:{src.line_of(lit.start)}: write! with {len(ph)} placeholders or format specs (R15 subset: at most one plain placeholder)')
        unesc = lambda x: x.replace('\x00', '{').replace('\x01', '}')
        fn = 'vx_writeln' if ln else 'vx_write'
        if not ph:
            ed.replace(sig[i].start, sig[c].end, f'{fn}0({recv}, {openq}{unesc(marked)}{closeq})', 'R15')
        else:
            pre, post = unesc(marked[:ph[0].start()]), unesc(marked[ph[0].end():])
            if ph[0].group(1):
                arg = ph[0].group(1)
                if sig[j + 2].text != ')':
                    raise LiftError(f'{src.rel}:{src.line_of(lit.start)}: named placeholder with extra arguments')
            else:
                if sig[j + 2].text != ',':
                    raise LiftError(f'{src.rel}:{src.line_of(lit.start)}: positional placeholder without argument')
                a0, a1 = j + 3, c
                if sig[a1 - 1].text == ',':
                    a1 -= 1
                arg = src.text[sig[a0].start:sig[a1 - 1].end]
            ed.replace(sig[i].start, sig[c].end, f'{fn}1({recv}, {openq}{pre}{closeq}, &({arg}), {openq}{post}{closeq})', 'R15')
        log.append(f'R15 {src.rel}:{src.line_of(sig[i].start)} {sig[i].text}! routed through {fn}0/1')


def rewrite_method_shims(src, ed, lo, hi, shims, log):
    """R13: `RECV.m(ARGS)` -> `shim(RECV, ARGS)` for the listed provided trait methods (name -> (shim, recv_prefix))."""
    sig = src.sig
    for i in reversed(range(lo + 1, hi - 1)):   # right to left: the outer call of a chain is inserted first
        t = sig[i]
        if not (t.kind == 'id' and t.text in shims and sig[i - 1].text == '.'):
            continue
        o = i + 1
        if sig[o].text == ':' and sig[o + 1].text == ':' and sig[o + 2].text == '<':
            # turbofish `.m::<T>(..)`: the shim infers its type arguments
            depth, j = 0, o + 2
            while True:
                if sig[j].text == '<':
                    depth += 1
                elif sig[j].text == '>' and sig[j - 1].text != '-':
                    depth -= 1
                    if depth == 0:
                        break
                j += 1
            o = j + 1
        if sig[o].text != '(':
            continue
        shim, prefix = shims[t.text]
        a = postfix_chain_start(sig, i - 2, lo)
        recv_a, recv_b = sig[a].start, sig[i - 2].end
        empty = sig[o].mate == o + 1
        ed.insert(recv_a, f'{shim}({prefix}', 'R13')
        ed.replace(recv_b, sig[o].end, '' if empty else ', ', 'R13')
        log.append(f'R13 {src.rel}:{src.line_of(t.start)} provided trait method `.{t.text}(..)` routed through {shim}')


def find_closures(src, lo, hi):
    """Closures in source order: (bar1_idx, bar2_idx, body_first_idx, body_last_idx)."""
    sig = src.sig
    out = []
    i = lo
    while i < hi:
        t = sig[i]
        if t.kind == 'p' and t.text == '|' and sig[i - 1].kind == 'p' and sig[i - 1].text in '(,=' or \
           (t.kind == 'p' and t.text == '|' and sig[i - 1].kind == 'id' and sig[i - 1].text == 'move'):
            j = i + 1
            while not (sig[j].kind == 'p' and sig[j].text == '|'):
                if sig[j].kind == 'p' and sig[j].text in '([':
                    j = sig[j].mate
                j += 1
            b = j + 1
            k = b
            if sig[k].kind == 'p' and sig[k].text == '{':
                e = sig[k].mate
            else:
                while k < hi:
                    u = sig[k]
                    if u.kind == 'p' and u.text in '([{':
                        k = u.mate + 1
                        continue
                    if u.kind == 'p' and u.text in ',)};':
                        break
                    k += 1
                e = k - 1
            out.append((i, j, b, e))
            i = j + 1
            continue
        i += 1
    return out


def annotate_closures(src, ed, lo, hi, specs, log):
    """R12: closure k gets typed parameters, a named result and an `ensures` (ghost contract on the real closure body)."""
    cl = find_closures(src, lo, hi)
    sig = src.sig
    for k, sp in specs.items():
        if k >= len(cl):
            log.append(f'R12 closure contract {k} not applied: the lifted range has {len(cl)} closure(s)')
            continue
        b1, b2, first, last = cl[k]
        ed.replace(sig[b1].start, sig[b2].end, f"|{sp['params']}| -> ({sp['ret']})\n        ensures {sp['ensures'].strip()}\n    {{ ", 'R12')
        ed.insert(sig[last].end, ' }', 'R12')
        log.append(f'R12 {src.rel}:{src.line_of(sig[b1].start)} closure {k} annotated with a contract')


def rewrite_closure_tuple_params(src, ed, lo, hi, skip, log):
    """R16: `|(a, b)| BODY` -> `|vx_p0| { let (a, b) = vx_p0; BODY }` (Verus accepts only variables as closure parameters)."""
    sig = src.sig
    for n, (b1, b2, first, last) in enumerate(find_closures(src, lo, hi)):
        if n in skip:
            continue
        inner = sig[b1 + 1:b2]
        if len(inner) >= 2 and inner[0].kind == 'p' and inner[0].text == '(' and inner[0].mate == b2 - 1:
            pat = src.text[inner[0].start:sig[b2 - 1].end]
            ed.replace(sig[b1].start, sig[b2].end, f'|vx_p{n}| {{ let {pat} = vx_p{n}; ', 'R16')
            ed.insert(sig[last].end, ' }', 'R16')
            log.append(f'R16 {src.rel}:{src.line_of(sig[b1].start)} closure with a tuple-pattern parameter: pattern moved into a `let`')
        elif len(inner) == 1 and inner[0].kind == 'id' and inner[0].text == '_':
            ed.replace(inner[0].start, inner[0].end, f'_vx_p{n}', 'R16')
            log.append(f'R16 {src.rel}:{src.line_of(sig[b1].start)} closure parameter `_` named')
