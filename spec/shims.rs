// ---- shims introduced by lifter rewrites (bodies are literally the removed expressions) ----
verus! {

// String + &str (R2 shim: body is literally the removed expression)
#[verifier::external_body]
pub fn vx_string_add(a: String, b: &str) -> (r: String)
    ensures r@ == a@ + b@
{ a + b }

// R11 shim for `format!` with exactly one `{}` placeholder. `display_view` is what Display writes for the argument
// (axioms for str-like types below; uninterpreted for anything else).
pub uninterp spec fn display_view<T: ?Sized>(a: &T) -> Seq<char>;
pub broadcast axiom fn axiom_display_str(s: &str) ensures #[trigger] display_view::<str>(s) == s@;
pub broadcast axiom fn axiom_display_str_ref<'a>(s: &&'a str) ensures #[trigger] display_view::<&'a str>(s) == (*s)@;
pub broadcast axiom fn axiom_display_string(s: &String) ensures #[trigger] display_view::<String>(s) == s@;
pub broadcast axiom fn axiom_display_string_ref<'a>(s: &&'a String) ensures #[trigger] display_view::<&'a String>(s) == (*s)@;
pub broadcast axiom fn axiom_display_str_ref_ref<'a, 'b>(s: &&'b &'a str) ensures #[trigger] display_view::<&'b &'a str>(s) == (**s)@;
pub broadcast axiom fn axiom_display_string_ref_ref<'a, 'b>(s: &&'b &'a String) ensures #[trigger] display_view::<&'b &'a String>(s) == (**s)@;
pub broadcast group group_display { axiom_display_str, axiom_display_str_ref, axiom_display_string, axiom_display_string_ref, axiom_display_str_ref_ref, axiom_display_string_ref_ref }
#[verifier::external_body]
pub fn vx_fmt1<T: core::fmt::Display + ?Sized>(pre: &str, a: &T, post: &str) -> (r: String)
    ensures r@ == pre@ + display_view(a) + post@
{ format!("{pre}{a}{post}") }
#[verifier::external_body]
pub fn vx_fmt0(p0: &str) -> (r: String)
    ensures r@ == p0@
{ p0.to_string() }
#[verifier::external_body]
pub fn vx_fmt2<A: core::fmt::Display + ?Sized, B: core::fmt::Display + ?Sized>(p0: &str, a: &A, p1: &str, b: &B, p2: &str) -> (r: String)
    ensures r@ == p0@ + display_view(a) + p1@ + display_view(b) + p2@
{ format!("{p0}{a}{p1}{b}{p2}") }
#[verifier::external_body]
pub fn vx_fmt3<A: core::fmt::Display + ?Sized, B: core::fmt::Display + ?Sized, C: core::fmt::Display + ?Sized>(p0: &str, a: &A, p1: &str, b: &B, p2: &str, c: &C, p3: &str) -> (r: String)
    ensures r@ == p0@ + display_view(a) + p1@ + display_view(b) + p2@ + display_view(c) + p3@
{ format!("{p0}{a}{p1}{b}{p2}{c}{p3}") }
#[verifier::external_body]
pub fn vx_fmt4<A: core::fmt::Display + ?Sized, B: core::fmt::Display + ?Sized, C: core::fmt::Display + ?Sized, D: core::fmt::Display + ?Sized>(p0: &str, a: &A, p1: &str, b: &B, p2: &str, c: &C, p3: &str, d: &D, p4: &str) -> (r: String)
    ensures r@ == p0@ + display_view(a) + p1@ + display_view(b) + p2@ + display_view(c) + p3@ + display_view(d) + p4@
{ format!("{p0}{a}{p1}{b}{p2}{c}{p3}{d}{p4}") }

// R15 shims for `write!` / `writeln!` into a String with at most one plain placeholder (fmt::Write for String appends)
#[verifier::external_body]
pub fn vx_write0(w: &mut String, s: &str) -> (r: core::fmt::Result)
    ensures r is Ok ==> final(w)@ == old(w)@ + s@
{ use core::fmt::Write; w.write_str(s) }
#[verifier::external_body]
pub fn vx_writeln0(w: &mut String, s: &str) -> (r: core::fmt::Result)
    ensures r is Ok ==> final(w)@ == old(w)@ + s@ + seq!['\n']
{ use core::fmt::Write; writeln!(w, "{s}") }
#[verifier::external_body]
pub fn vx_write1<T: core::fmt::Display + ?Sized>(w: &mut String, pre: &str, a: &T, post: &str) -> (r: core::fmt::Result)
    ensures r is Ok ==> final(w)@ == old(w)@ + pre@ + display_view(a) + post@
{ use core::fmt::Write; write!(w, "{pre}{a}{post}") }
#[verifier::external_body]
pub fn vx_writeln1<T: core::fmt::Display + ?Sized>(w: &mut String, pre: &str, a: &T, post: &str) -> (r: core::fmt::Result)
    ensures r is Ok ==> final(w)@ == old(w)@ + pre@ + display_view(a) + post@ + seq!['\n']
{ use core::fmt::Write; writeln!(w, "{pre}{a}{post}") }

} // verus!
