// ---- shims introduced by lifter rewrites (bodies are literally the removed expressions) ----
verus! {

// String + &str (R2 shim: body is literally the removed expression)
#[verifier::external_body]
pub fn vx_string_add(a: String, b: &str) -> (r: String)
    ensures r@ == a@ + b@
{ a + b }

} // verus!
