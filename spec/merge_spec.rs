// ---- property-level spec for C05 / C13 / C15: what merging one declaration into a file must produce ----
verus! {
broadcast use {axiom_str_cmp_total, axiom_str_cmp_trans};

pub open spec fn decl_start() -> Seq<char> { "export type "@ }
// the declared name: first word after the last `export type `
pub open spec fn has_name(d: Seq<char>) -> bool { ws_words(split_str(d, decl_start()).last()).len() >= 1 }
pub open spec fn decl_name(d: Seq<char>) -> Seq<char> { ws_words(split_str(d, decl_start()).last())[0] }
// the declarations of a file body: pieces between blank lines, without surrounding line breaks
pub open spec fn decls_of(body: Seq<char>) -> Seq<Seq<char>> {
    let parts = split_str(body, "\n\n"@);
    Seq::new(parts.len(), |k: int| trim_char(parts[k], '\n'))
}
// a declaration as it is written into the file
pub open spec fn chunk(d: Seq<char>) -> Seq<char> { seq!['\n'] + d + seq!['\n'] }
pub open spec fn render_decls(ds: Seq<Seq<char>>) -> Seq<char>
    decreases ds.len()
{ if ds.len() == 0 { Seq::<char>::empty() } else { render_decls(ds.drop_last()) + chunk(ds.last()) } }

// sorted insertion: n goes in front of the first declaration whose name is not smaller than n's
// (prefix form: result of the first i declarations, and whether n has been placed)
pub open spec fn ins_prefix(ds: Seq<Seq<char>>, n: Seq<char>, i: int) -> (Seq<Seq<char>>, bool)
    decreases i
{
    if i <= 0 { (Seq::<Seq<char>>::empty(), false) }
    else {
        let (out, placed) = ins_prefix(ds, n, i - 1);
        let d = ds[i - 1];
        if placed || str_lt(decl_name(d), decl_name(n)) { (out.push(d), placed) } else { (out.push(n).push(d), true) }
    }
}
pub open spec fn insert_by_name(ds: Seq<Seq<char>>, n: Seq<char>) -> Seq<Seq<char>> {
    let (out, placed) = ins_prefix(ds, n, ds.len() as int);
    if placed { out } else { out.push(n) }
}

pub broadcast proof fn lemma_render_push(out: Seq<Seq<char>>, d: Seq<char>)
    ensures #[trigger] render_decls(out.push(d)) == render_decls(out) + chunk(d)
{
    assert(out.push(d).drop_last() =~= out);
}

// ---- imports of a merged file (C05, C13): the union of the import lines, rendered in ascending order ----
// names of one import line as the code iterates them
pub open spec fn name_set<'a>(names: Seq<&'a str>) -> Set<&'a str> { names.to_set() }
// path -> set of names after the first n lines (lines[k] = (path, names of that line))
pub open spec fn union_map<'a>(paths: Seq<&'a str>, names: Seq<Seq<&'a str>>, n: int) -> Map<&'a str, Set<&'a str>>
    decreases n
{
    if n <= 0 { Map::<&'a str, Set<&'a str>>::empty() }
    else {
        let m = union_map(paths, names, n - 1);
        let p = paths[n - 1];
        let old = if m.contains_key(p) { m[p] } else { Set::<&'a str>::empty() };
        m.insert(p, old.union(name_set(names[n - 1])))
    }
}
// `A, B, C`: every name followed by `, ` except the last (prefix of j names out of the whole listing)
pub open spec fn join_prefix<'a>(names: Seq<&'a str>, j: int) -> Seq<char>
    decreases j
{
    if j <= 0 { Seq::<char>::empty() }
    else { join_prefix(names, j - 1) + names[j - 1]@ + (if j < names.len() { ", "@ } else { Seq::<char>::empty() }) }
}
pub open spec fn import_line<'a, K: View<V = Seq<char>>>(path: K, names: Seq<&'a str>) -> Seq<char> {
    "import type { "@ + join_prefix(names, names.len() as int) + " } from \""@ + path.view() + "\";\n"@
}
// the first n entries of the map in ascending key order, each with its names in ascending order
pub open spec fn render_entries<'a, K: View<V = Seq<char>>>(m: Map<K, Set<&'a str>>, keys: Seq<K>, n: int) -> Seq<char>
    decreases n
{
    if n <= 0 { Seq::<char>::empty() }
    else { render_entries(m, keys, n - 1) + import_line(keys[n - 1], canon(m[keys[n - 1]])) }
}
pub open spec fn render_imports<'a, K: View<V = Seq<char>>>(m: Map<K, Set<&'a str>>) -> Seq<char> {
    render_entries(m, canon(m.dom()), canon(m.dom()).len() as int)
}

pub proof fn lemma_to_set_push<T>(s: Seq<T>, x: T)
    ensures s.push(x).to_set() =~= s.to_set().insert(x)
{
    assert forall|y: T| s.push(x).to_set().contains(y) <==> s.to_set().insert(x).contains(y) by {
        if s.push(x).contains(y) { let k = choose|k: int| 0 <= k < s.push(x).len() && s.push(x)[k] == y; if k < s.len() { assert(s[k] == y); assert(s.contains(y)); } }
        if s.contains(y) { let k = choose|k: int| 0 <= k < s.len() && s[k] == y; assert(s.push(x)[k] == y); }
        if y == x { assert(s.push(x)[s.len() as int] == x); }
    }
}

// ---- C05 at the abstract level: sorted insertion has a closed form, commutes for different names, keeps the file sorted ----
// (pure lemmas over the spec functions; `&str <` is only assumed to be a strict total order)
pub open spec fn name_lt(a: Seq<char>, b: Seq<char>) -> bool { str_lt(decl_name(a), decl_name(b)) }
// number of leading declarations whose name is smaller than n's
pub open spec fn lead(ds: Seq<Seq<char>>, n: Seq<char>) -> int
    decreases ds.len()
{ if ds.len() > 0 && name_lt(ds[0], n) { 1 + lead(ds.drop_first(), n) } else { 0 } }

pub proof fn lemma_lead(ds: Seq<Seq<char>>, n: Seq<char>)
    ensures
        0 <= lead(ds, n) <= ds.len(),
        forall|k: int| 0 <= k < lead(ds, n) ==> name_lt(#[trigger] ds[k], n),
        lead(ds, n) < ds.len() ==> !name_lt(ds[lead(ds, n)], n),
    decreases ds.len()
{
    if ds.len() > 0 && name_lt(ds[0], n) {
        let r = ds.drop_first();
        lemma_lead(r, n);
        assert forall|k: int| 0 <= k < lead(ds, n) implies name_lt(#[trigger] ds[k], n) by { if k > 0 { assert(ds[k] == r[k - 1]); } }
        if lead(ds, n) < ds.len() { assert(ds[lead(ds, n)] == r[lead(r, n)]); }
    }
}

// sorted insertion is: the leading smaller declarations, then n, then the rest
pub proof fn lemma_ins_prefix(ds: Seq<Seq<char>>, n: Seq<char>, i: int)
    requires 0 <= i <= ds.len()
    ensures ({
        let p = lead(ds, n);
        let (out, placed) = ins_prefix(ds, n, i);
        if i <= p { !placed && out == ds.take(i) } else { placed && out == ds.take(p).push(n) + ds.subrange(p, i) }
    })
    decreases i
{
    lemma_lead(ds, n);
    let p = lead(ds, n);
    if i > 0 {
        lemma_ins_prefix(ds, n, i - 1);
        let (o1, pl1) = ins_prefix(ds, n, i - 1);
        let d = ds[i - 1];
        if i - 1 < p {
            assert(name_lt(d, n));
            assert(ds.take(i) =~= ds.take(i - 1).push(d));
        } else if i - 1 == p {
            assert(!pl1 && !name_lt(d, n));
            assert(o1.push(n).push(d) =~= ds.take(p).push(n) + ds.subrange(p, i));
        } else {
            assert(pl1);
            assert(o1.push(d) =~= ds.take(p).push(n) + ds.subrange(p, i));
        }
    } else {
        assert(ds.take(0) =~= Seq::<Seq<char>>::empty());
    }
}
pub proof fn lemma_insert_shape(ds: Seq<Seq<char>>, n: Seq<char>)
    ensures insert_by_name(ds, n) == ds.take(lead(ds, n)).push(n) + ds.skip(lead(ds, n))
{
    lemma_lead(ds, n);
    lemma_ins_prefix(ds, n, ds.len() as int);
    let p = lead(ds, n);
    if ds.len() <= p {
        assert(ds.take(ds.len() as int) =~= ds);
        assert(ds.skip(p) =~= Seq::<Seq<char>>::empty());
        assert(ds.push(n) =~= ds.take(p).push(n) + ds.skip(p));
    } else {
        assert(ds.subrange(p, ds.len() as int) =~= ds.skip(p));
    }
}

pub proof fn lemma_lead_is(ds: Seq<Seq<char>>, n: Seq<char>, m: int)
    requires 0 <= m <= ds.len(), forall|k: int| 0 <= k < m ==> name_lt(#[trigger] ds[k], n), m < ds.len() ==> !name_lt(ds[m], n)
    ensures lead(ds, n) == m
    decreases ds.len()
{
    if m > 0 {
        let r = ds.drop_first();
        assert(name_lt(ds[0], n));
        assert forall|k: int| 0 <= k < m - 1 implies name_lt(#[trigger] r[k], n) by { assert(r[k] == ds[k + 1]); }
        if m - 1 < r.len() { assert(r[m - 1] == ds[m]); }
        lemma_lead_is(r, n, m - 1);
    }
}
// declarations strictly ascending by name (hence pairwise distinct names)
pub open spec fn sorted_names(ds: Seq<Seq<char>>) -> bool { forall|i: int, j: int| 0 <= i < j < ds.len() ==> name_lt(#[trigger] ds[i], #[trigger] ds[j]) }

// C05, abstract level: merging two declarations with different names into a name-sorted file gives the same file in either order
pub proof fn lemma_insert_commutes(ds: Seq<Seq<char>>, a: Seq<char>, b: Seq<char>)
    requires sorted_names(ds), name_lt(a, b)
    ensures insert_by_name(insert_by_name(ds, a), b) == insert_by_name(insert_by_name(ds, b), a)
{
    lemma_lead(ds, a); lemma_lead(ds, b);
    let pa = lead(ds, a); let pb = lead(ds, b);
    // pa <= pb
    if pb < pa { assert(name_lt(ds[pb], a)); assert(name_lt(ds[pb], b)); }
    lemma_insert_shape(ds, a); lemma_insert_shape(ds, b);
    let x = insert_by_name(ds, a); let y = insert_by_name(ds, b);
    assert(x.len() == ds.len() + 1 && y.len() == ds.len() + 1);
    // lead(x, b) == pb + 1
    assert forall|k: int| 0 <= k < pb + 1 implies name_lt(#[trigger] x[k], b) by {
        if k < pa { assert(x[k] == ds[k]); assert(name_lt(ds[k], a)); }
        else if k == pa { assert(x[k] == a); }
        else { assert(x[k] == ds[k - 1]); }
    }
    if pb + 1 < x.len() { assert(x[pb + 1] == ds[pb]); }
    lemma_lead_is(x, b, pb + 1);
    // lead(y, a) == pa
    assert forall|k: int| 0 <= k < pa implies name_lt(#[trigger] y[k], a) by { assert(y[k] == ds[k]); }
    if pa < pb { assert(y[pa] == ds[pa]); } else { assert(y[pa] == b); assert(!name_lt(b, a)); }
    lemma_lead_is(y, a, pa);
    lemma_insert_shape(x, b); lemma_insert_shape(y, a);
    let l = insert_by_name(x, b); let r = insert_by_name(y, a);
    assert(l.len() == r.len());
    assert forall|k: int| 0 <= k < l.len() implies l[k] == r[k] by {
        if k < pa { } else if k == pa { } else if k <= pb { } else if k == pb + 1 { } else { }
    }
    assert(l =~= r);
}
// and the file stays name-sorted, so the argument iterates over any number of merges
pub proof fn lemma_insert_keeps_sorted(ds: Seq<Seq<char>>, n: Seq<char>)
    requires sorted_names(ds), forall|k: int| 0 <= k < ds.len() ==> decl_name(#[trigger] ds[k]) != decl_name(n)
    ensures sorted_names(insert_by_name(ds, n))
{
    lemma_lead(ds, n); lemma_insert_shape(ds, n);
    let p = lead(ds, n); let x = insert_by_name(ds, n);
    assert forall|i: int, j: int| 0 <= i < j < x.len() implies name_lt(#[trigger] x[i], #[trigger] x[j]) by {
        if j < p { } else if i > p { assert(x[i] == ds[i - 1] && x[j] == ds[j - 1]); }
        else if i < p && j == p { }
        else if i < p && j > p { assert(x[j] == ds[j - 1]); }
        else { // i == p < j: n < ds[j-1]: ds[p] is not < n and differs from n, and ds[p] <= ds[j-1]
            assert(x[i] == n && x[j] == ds[j - 1]);
            assert(!name_lt(ds[p], n));
            assert(decl_name(ds[p]) != decl_name(n));
            if j - 1 > p { assert(name_lt(ds[p], ds[j - 1])); }
        }
    }
}

} // verus!
