// ---- property-level spec for C05 / C13 / C15: what merging one declaration into a file must produce ----
verus! {

pub open spec fn decl_start() -> Seq<char> { "export type "@ }
// the declared name: first word after the last `export type `
pub open spec fn has_name(d: Seq<char>) -> bool { ws_words(split_str(d, decl_start()).last()).len() >= 1 }
pub open spec fn decl_name(d: Seq<char>) -> Seq<char> { ws_words(split_str(d, decl_start()).last())[0] }
// the declarations of a file body: pieces between blank lines, without surrounding line breaks
pub open spec fn decls_of(body: Seq<char>) -> Seq<Seq<char>> {
    let parts = split_str(body, "\n\n"@);
    Seq::new(parts.len(), |k: int| trim_char(parts[k], '\n'))
}
// a declaration as it is written into the file
pub open spec fn chunk(d: Seq<char>) -> Seq<char> { seq!['\n'] + d + seq!['\n'] }
pub open spec fn render_decls(ds: Seq<Seq<char>>) -> Seq<char>
    decreases ds.len()
{ if ds.len() == 0 { Seq::<char>::empty() } else { render_decls(ds.drop_last()) + chunk(ds.last()) } }

// sorted insertion: n goes in front of the first declaration whose name is not smaller than n's
// (prefix form: result of the first i declarations, and whether n has been placed)
pub open spec fn ins_prefix(ds: Seq<Seq<char>>, n: Seq<char>, i: int) -> (Seq<Seq<char>>, bool)
    decreases i
{
    if i <= 0 { (Seq::<Seq<char>>::empty(), false) }
    else {
        let (out, placed) = ins_prefix(ds, n, i - 1);
        let d = ds[i - 1];
        if placed || str_lt(decl_name(d), decl_name(n)) { (out.push(d), placed) } else { (out.push(n).push(d), true) }
    }
}
pub open spec fn insert_by_name(ds: Seq<Seq<char>>, n: Seq<char>) -> Seq<Seq<char>> {
    let (out, placed) = ins_prefix(ds, n, ds.len() as int);
    if placed { out } else { out.push(n) }
}

pub broadcast proof fn lemma_render_push(out: Seq<Seq<char>>, d: Seq<char>)
    ensures #[trigger] render_decls(out.push(d)) == render_decls(out) + chunk(d)
{
    assert(out.push(d).drop_last() =~= out);
}

// ---- imports of a merged file (C05, C13): the union of the import lines, rendered in ascending order ----
// names of one import line as the code iterates them
pub open spec fn name_set<'a>(names: Seq<&'a str>) -> Set<&'a str> { names.to_set() }
// path -> set of names after the first n lines (lines[k] = (path, names of that line))
pub open spec fn union_map<'a>(paths: Seq<&'a str>, names: Seq<Seq<&'a str>>, n: int) -> Map<&'a str, Set<&'a str>>
    decreases n
{
    if n <= 0 { Map::<&'a str, Set<&'a str>>::empty() }
    else {
        let m = union_map(paths, names, n - 1);
        let p = paths[n - 1];
        let old = if m.contains_key(p) { m[p] } else { Set::<&'a str>::empty() };
        m.insert(p, old.union(name_set(names[n - 1])))
    }
}
// `A, B, C`: every name followed by `, ` except the last (prefix of j names out of the whole listing)
pub open spec fn join_prefix<'a>(names: Seq<&'a str>, j: int) -> Seq<char>
    decreases j
{
    if j <= 0 { Seq::<char>::empty() }
    else { join_prefix(names, j - 1) + names[j - 1]@ + (if j < names.len() { ", "@ } else { Seq::<char>::empty() }) }
}
pub open spec fn import_line<'a>(path: &'a str, names: Seq<&'a str>) -> Seq<char> {
    "import type { "@ + join_prefix(names, names.len() as int) + " } from \""@ + path@ + "\";\n"@
}
// the first n entries of the map in ascending key order, each with its names in ascending order
pub open spec fn render_entries<'a>(m: Map<&'a str, Set<&'a str>>, keys: Seq<&'a str>, n: int) -> Seq<char>
    decreases n
{
    if n <= 0 { Seq::<char>::empty() }
    else { render_entries(m, keys, n - 1) + import_line(keys[n - 1], canon(m[keys[n - 1]])) }
}
pub open spec fn render_imports<'a>(m: Map<&'a str, Set<&'a str>>) -> Seq<char> {
    render_entries(m, canon(m.dom()), canon(m.dom()).len() as int)
}

pub proof fn lemma_to_set_push<T>(s: Seq<T>, x: T)
    ensures s.push(x).to_set() =~= s.to_set().insert(x)
{
    assert forall|y: T| s.push(x).to_set().contains(y) <==> s.to_set().insert(x).contains(y) by {
        if s.push(x).contains(y) { let k = choose|k: int| 0 <= k < s.push(x).len() && s.push(x)[k] == y; if k < s.len() { assert(s[k] == y); assert(s.contains(y)); } }
        if s.contains(y) { let k = choose|k: int| 0 <= k < s.len() && s[k] == y; assert(s.push(x)[k] == y); }
        if y == x { assert(s.push(x)[s.len() as int] == x); }
    }
}

} // verus!
