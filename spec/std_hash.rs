// ---- trusted std contracts: HashMap::get_mut (not in vstd) and key-model facts for PathBuf / String keys ----
verus! {

pub open spec fn key_matches<K, V, Q: ?Sized>(k2: K, v2: V, k: &Q) -> bool {
    maps_borrowed_key_to_value(Map::<K, V>::empty().insert(k2, v2), k, v2)
}
pub assume_specification<'a, K, V, S, A, Q: ?Sized>[ std::collections::HashMap::<K, V, S, A>::get_mut ](m: &'a mut std::collections::HashMap<K, V, S, A>, k: &Q) -> (r: Option<&'a mut V>)
    where
        A: std::alloc::Allocator,
        K: std::cmp::Eq + std::hash::Hash + std::borrow::Borrow<Q>,
        Q: std::hash::Hash + std::cmp::Eq,
        S: std::hash::BuildHasher,
    ensures
        obeys_key_model::<K>() && builds_valid_hashers::<S>() ==> (match r {
            Option::Some(v) =>
                contains_borrowed_key((*old(m))@, k)
                && maps_borrowed_key_to_value((*old(m))@, k, *v)
                && maps_borrowed_key_to_value((*final(m))@, k, *final(v))
                && (*final(m))@.dom() == (*old(m))@.dom()
                && (forall|k2: K| #![trigger (*final(m))@[k2]] (*old(m))@.contains_key(k2) && !key_matches(k2, (*old(m))@[k2], k) ==> (*final(m))@[k2] == (*old(m))@[k2]),
            Option::None => !contains_borrowed_key((*old(m))@, k) && (*final(m))@ == (*old(m))@,
        });

// PathBuf and String implement Eq + Hash consistently (PathBuf: component-wise); as map keys they are identified with
// their spec values
pub broadcast axiom fn axiom_pathbuf_key_model()
    ensures #[trigger] obeys_key_model::<std::path::PathBuf>();
pub broadcast axiom fn axiom_string_key_model()
    ensures #[trigger] obeys_key_model::<String>();

#[verifier::external_type_specification]
#[verifier::external_body]
pub struct ExTypeId(std::any::TypeId);
pub uninterp spec fn spec_type_id<T: ?Sized>() -> std::any::TypeId;
pub assume_specification<T: ?Sized + 'static>[ std::any::TypeId::of::<T> ]() -> (r: std::any::TypeId)
    ensures r == spec_type_id::<T>();
pub broadcast axiom fn axiom_typeid_key_model()
    ensures #[trigger] obeys_key_model::<std::any::TypeId>();


// HashSet::from([a, b, ..]): the set of the array's elements
pub assume_specification<T: core::cmp::Eq + core::hash::Hash, const N: usize>[ <std::collections::HashSet<T> as core::convert::From<[T; N]>>::from ](arr: [T; N]) -> (r: std::collections::HashSet<T>)
    ensures r@ == arr@.to_set();

} // verus!
