// ---- trusted std contracts: BTreeMap / BTreeSet with &str keys (ordering), Entry::or_default, by-value iteration ----
verus! {

// &str keys obey vstd's comparison laws (lexicographic byte order is a lawful total order consistent with ==)
pub broadcast axiom fn axiom_str_ref_obeys_cmp<'a>()
    ensures #[trigger] vstd::std_specs::btree::key_obeys_cmp_spec::<&'a str>();

// an ascending listing of a finite set (as BTreeSet::iter / BTreeMap iteration produce it)
pub open spec fn sorted_listing<K>(s: Seq<K>, set: Set<K>) -> bool {
    s.len() == set.len() && (forall|i: int| 0 <= i < s.len() ==> set.contains(#[trigger] s[i])) && vstd::std_specs::btree::increasing_seq(s)
}
// the ascending listing is unique (total order); `canon` names it
pub open spec fn canon<K>(set: Set<K>) -> Seq<K> { choose|s: Seq<K>| sorted_listing(s, set) }
pub broadcast axiom fn axiom_sorted_listing_unique<K>(s: Seq<K>, set: Set<K>)
    requires vstd::std_specs::btree::key_obeys_cmp_spec::<K>(), #[trigger] sorted_listing(s, set)
    ensures s == canon(set);

// Default::default() of the collections used as map values
pub uninterp spec fn spec_default<V>() -> V;
pub broadcast axiom fn axiom_default_btreeset<K>()
    ensures (#[trigger] spec_default::<std::collections::BTreeSet<K>>())@ == Set::<K>::empty();
pub broadcast axiom fn axiom_default_vec<T>()
    ensures (#[trigger] spec_default::<Vec<T>>())@ == Seq::<T>::empty();

// shim for `map.entry(k).or_default()` (Entry API is not in vstd): a mutable reference to the value under k, inserted as
// Default::default() if absent; all other entries untouched
#[verifier::external_body]
pub fn vx_btree_entry_or_default<'m, K: Ord, V: Default>(m: &'m mut std::collections::BTreeMap<K, V>, k: K) -> (r: &'m mut V)
    ensures
        vstd::std_specs::btree::key_obeys_cmp_spec::<K>() ==> {
            &&& *r == (if (*old(m))@.contains_key(k) { (*old(m))@[k] } else { spec_default::<V>() })
            &&& (*final(m))@.dom() == (*old(m))@.dom().insert(k)
            &&& (*final(m))@[k] == *final(r)
            &&& forall|k2: K| k2 != k && (*old(m))@.contains_key(k2) ==> #[trigger] (*final(m))@[k2] == (*old(m))@[k2]
        },
{ m.entry(k).or_default() }

// by-value iteration of a BTreeMap: ascending keys, each with its value
#[verifier::external_type_specification]
#[verifier::external_body]
#[verifier::reject_recursive_types(K)]
#[verifier::reject_recursive_types(V)]
#[verifier::reject_recursive_types(A)]
pub struct ExBTreeMapIntoIter<K, V, A: std::alloc::Allocator + Clone>(std::collections::btree_map::IntoIter<K, V, A>);

pub open spec fn keys_of<K, V>(s: Seq<(K, V)>) -> Seq<K> { Seq::new(s.len(), |i: int| s[i].0) }
pub assume_specification<K, V, A: std::alloc::Allocator + Clone>[ <std::collections::BTreeMap<K, V, A> as core::iter::IntoIterator>::into_iter ](m: std::collections::BTreeMap<K, V, A>) -> (it: std::collections::btree_map::IntoIter<K, V, A>)
    ensures
        vstd::std_specs::btree::key_obeys_cmp_spec::<K>() ==> {
            &&& sorted_listing(keys_of(it.remaining()), m@.dom())
            &&& forall|i: int| 0 <= i < it.remaining().len() ==> (#[trigger] it.remaining()[i]).1 == m@[it.remaining()[i].0]
        },
        it.obeys_prophetic_iter_laws(), it.decrease() is Some;

} // verus!
