// ---- trusted std contracts: BTreeMap / BTreeSet with &str keys (ordering), Entry::or_default, by-value iteration ----
verus! {

// &str keys obey vstd's comparison laws (lexicographic byte order is a lawful total order consistent with ==)
pub broadcast axiom fn axiom_str_ref_obeys_cmp<'a>()
    ensures #[trigger] vstd::std_specs::btree::key_obeys_cmp_spec::<&'a str>();

// String / &String keys likewise
pub broadcast axiom fn axiom_string_ref_obeys_cmp<'a>()
    ensures #[trigger] vstd::std_specs::btree::key_obeys_cmp_spec::<&'a String>();
pub broadcast axiom fn axiom_string_obeys_cmp()
    ensures #[trigger] vstd::std_specs::btree::key_obeys_cmp_spec::<String>();

// an ascending listing of a finite set (as BTreeSet::iter / BTreeMap iteration produce it)
pub open spec fn sorted_listing<K>(s: Seq<K>, set: Set<K>) -> bool {
    s.len() == set.len() && (forall|i: int| 0 <= i < s.len() ==> set.contains(#[trigger] s[i])) && vstd::std_specs::btree::increasing_seq(s)
}
// the ascending listing is unique (total order); `canon` names it
pub open spec fn canon<K>(set: Set<K>) -> Seq<K> { choose|s: Seq<K>| sorted_listing(s, set) }
pub broadcast axiom fn axiom_sorted_listing_unique<K>(s: Seq<K>, set: Set<K>)
    requires vstd::std_specs::btree::key_obeys_cmp_spec::<K>(), #[trigger] sorted_listing(s, set)
    ensures s == canon(set);

// BTreeSet::iter lists the set in ascending order: its dereferenced listing is the canonical one (uniqueness of the ascending
// listing, transported through the references)
pub broadcast axiom fn axiom_btree_set_iter_is_canon<K>(s: Seq<&K>)
    requires
        vstd::std_specs::btree::key_obeys_cmp_spec::<K>(),
        s.no_duplicates(),
        #[trigger] vstd::std_specs::btree::increasing_seq(s),
    ensures s.unref() == canon(s.unref().to_set());

// Default::default() of the collections used as map values
pub uninterp spec fn spec_default<V>() -> V;
pub broadcast axiom fn axiom_default_btreeset<K>()
    ensures (#[trigger] spec_default::<std::collections::BTreeSet<K>>())@ == Set::<K>::empty();
pub broadcast axiom fn axiom_default_vec<T>()
    ensures (#[trigger] spec_default::<Vec<T>>())@ == Seq::<T>::empty();

// shim for `map.entry(k).or_default()` (Entry API is not in vstd): a mutable reference to the value under k, inserted as
// Default::default() if absent; all other entries untouched
#[verifier::external_body]
pub fn vx_btree_entry_or_default<'m, K: Ord, V: Default>(m: &'m mut std::collections::BTreeMap<K, V>, k: K) -> (r: &'m mut V)
    ensures
        vstd::std_specs::btree::key_obeys_cmp_spec::<K>() ==> {
            &&& *r == (if (*old(m))@.contains_key(k) { (*old(m))@[k] } else { spec_default::<V>() })
            &&& (*final(m))@.dom() == (*old(m))@.dom().insert(k)
            &&& (*final(m))@[k] == *final(r)
            &&& forall|k2: K| k2 != k && (*old(m))@.contains_key(k2) ==> #[trigger] (*final(m))@[k2] == (*old(m))@[k2]
        },
{ m.entry(k).or_default() }

// by-value iteration of a BTreeMap: ascending keys, each with its value. btree_map::IntoIter cannot be given a usable
// external_type_specification here (its associated-type projection is not linked), so `for .. in map` is routed through an eager
// shim (loop directive iter_wrap): the entries are collected in iteration order and iterated from the Vec
pub open spec fn keys_of<K, V>(s: Seq<(K, V)>) -> Seq<K> { Seq::new(s.len(), |i: int| s[i].0) }
#[verifier::external_body]
pub fn vx_btree_map_into_iter<K, V>(m: std::collections::BTreeMap<K, V>) -> (it: std::vec::IntoIter<(K, V)>)
    ensures
        it.obeys_prophetic_iter_laws(),
        it.decrease() is Some,
        vstd::std_specs::btree::key_obeys_cmp_spec::<K>() ==> sorted_listing(keys_of(it.remaining()), m@.dom()),
        vstd::std_specs::btree::key_obeys_cmp_spec::<K>() ==> (forall|i: int| 0 <= i < it.remaining().len() ==> (#[trigger] it.remaining()[i]).1 == m@[it.remaining()[i].0]),
{ m.into_iter().collect::<Vec<_>>().into_iter() }

} // verus!
