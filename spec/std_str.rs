// ---- trusted std contracts: str / char / String (assumed, never proved; listed in evidence) ----
verus! {

// number of UTF-8 bytes of a char (std: char::len_utf8)
pub open spec fn utf8_len(c: char) -> nat {
    if (c as u32) < 0x80 { 1 } else if (c as u32) < 0x800 { 2 } else if (c as u32) < 0x10000 { 3 } else { 4 }
}

// byte offset of the k-th char of s
pub open spec fn utf8_offset(s: Seq<char>, k: int) -> nat
    decreases k
{
    if k <= 0 { 0 } else { utf8_offset(s, k - 1) + utf8_len(s[k - 1]) }
}

pub proof fn lemma_utf8_offset_pos(s: Seq<char>, k: int)
    requires k > 0
    ensures utf8_offset(s, k) > 0
    decreases k
{
    if k > 1 { lemma_utf8_offset_pos(s, k - 1); }
}

// Unicode predicates / mappings: uninterpreted outside ASCII, so every proof that uses them holds
// for every interpretation of the non-ASCII part.
pub uninterp spec fn spec_is_uppercase(c: char) -> bool;
pub uninterp spec fn spec_is_alphanumeric(c: char) -> bool;
pub uninterp spec fn spec_is_numeric(c: char) -> bool;

pub open spec fn is_ascii_upper(c: char) -> bool { 'A' <= c && c <= 'Z' }
pub open spec fn is_ascii_lower(c: char) -> bool { 'a' <= c && c <= 'z' }
pub open spec fn is_ascii_digit(c: char) -> bool { '0' <= c && c <= '9' }
pub open spec fn is_ascii(c: char) -> bool { (c as u32) < 0x80 }

pub broadcast proof fn axiom_is_uppercase_ascii(c: char)
    requires is_ascii(c)
    ensures #[trigger] spec_is_uppercase(c) == is_ascii_upper(c)
{ admit(); }

pub broadcast proof fn axiom_is_alphanumeric_ascii(c: char)
    requires is_ascii(c)
    ensures #[trigger] spec_is_alphanumeric(c) == (is_ascii_upper(c) || is_ascii_lower(c) || is_ascii_digit(c))
{ admit(); }

pub broadcast proof fn axiom_is_numeric_ascii(c: char)
    requires is_ascii(c)
    ensures #[trigger] spec_is_numeric(c) == is_ascii_digit(c)
{ admit(); }

pub open spec fn ascii_lower(c: char) -> char {
    if is_ascii_upper(c) { ((c as u8) + 32) as char } else { c }
}
pub open spec fn ascii_upper(c: char) -> char {
    if is_ascii_lower(c) { ((c as u8) - 32) as char } else { c }
}

pub assume_specification[ char::is_uppercase ](c: char) -> (b: bool)
    ensures b == spec_is_uppercase(c);
pub assume_specification[ char::is_alphanumeric ](c: char) -> (b: bool)
    ensures b == spec_is_alphanumeric(c);
pub assume_specification[ char::is_numeric ](c: char) -> (b: bool)
    ensures b == spec_is_numeric(c);
pub assume_specification[ char::to_ascii_lowercase ](c: &char) -> (r: char)
    ensures r == ascii_lower(*c);
pub assume_specification[ char::to_ascii_uppercase ](c: &char) -> (r: char)
    ensures r == ascii_upper(*c);

pub open spec fn seq_ascii_lower(s: Seq<char>) -> Seq<char> { s.map_values(|c: char| ascii_lower(c)) }
pub open spec fn seq_ascii_upper(s: Seq<char>) -> Seq<char> { s.map_values(|c: char| ascii_upper(c)) }

// full Unicode case mapping of a string: uninterpreted
pub uninterp spec fn spec_to_lowercase(s: Seq<char>) -> Seq<char>;
pub uninterp spec fn spec_to_uppercase(s: Seq<char>) -> Seq<char>;

pub assume_specification[ str::to_ascii_lowercase ](s: &str) -> (r: String)
    ensures r@ == seq_ascii_lower(s@);
pub assume_specification[ str::to_ascii_uppercase ](s: &str) -> (r: String)
    ensures r@ == seq_ascii_upper(s@);
pub assume_specification[ str::to_lowercase ](s: &str) -> (r: String)
    ensures r@ == spec_to_lowercase(s@);
pub assume_specification[ str::to_uppercase ](s: &str) -> (r: String)
    ensures r@ == spec_to_uppercase(s@);

// str::replace(char, &str): every occurrence of the char replaced by the string
pub open spec fn spec_replace_char(s: Seq<char>, from: char, to: Seq<char>) -> Seq<char>
    decreases s.len()
{
    if s.len() == 0 { s }
    else if s[0] == from { to + spec_replace_char(s.drop_first(), from, to) }
    else { seq![s[0]] + spec_replace_char(s.drop_first(), from, to) }
}
#[verifier::external_trait_specification]
pub trait ExPattern: Sized {
    type ExternalTraitSpecificationFor: core::str::pattern::Pattern;
}
// what a generic `P: Pattern` argument denotes when P = char (trusted: two axioms below)
pub uninterp spec fn pat_is_char<P>() -> bool;
pub uninterp spec fn pat_char<P>(p: P) -> char;
pub broadcast proof fn axiom_pat_char(c: char)
    ensures pat_is_char::<char>(), #[trigger] pat_char::<char>(c) == c
{ admit(); }
pub assume_specification<P: core::str::pattern::Pattern>[ str::replace::<P> ](s: &str, from: P, to: &str) -> (r: String)
    ensures pat_is_char::<P>() ==> r@ == spec_replace_char(s@, pat_char(from), to@);

pub assume_specification[ String::with_capacity ](n: usize) -> (r: String)
    ensures r@ == Seq::<char>::empty();

// char_indices: (byte offset, char) pairs
pub open spec fn spec_char_indices(s: Seq<char>) -> Seq<(usize, char)> {
    Seq::new(s.len(), |k: int| (utf8_offset(s, k) as usize, s[k]))
}

#[verifier::external_type_specification]
#[verifier::external_body]
pub struct ExCharIndices<'a>(core::str::CharIndices<'a>);

pub assume_specification<'a>[ str::char_indices ](s: &'a str) -> (it: core::str::CharIndices<'a>)
    ensures
        it.remaining() == spec_char_indices(s@),
        it.obeys_prophetic_iter_laws(),
        it.decrease() is Some;

// String + &str (R2 shim: body is literally the removed expression)
#[verifier::external_body]
pub fn vx_string_add(a: String, b: &str) -> (r: String)
    ensures r@ == a@ + b@
{ a + b }

} // verus!
