// ---- trusted std contracts: str / char / String (assumed, never proved; listed in evidence) ----
verus! {

// Unicode predicates / mappings: uninterpreted outside ASCII, so every proof that uses them holds
// for every interpretation of the non-ASCII part.
pub uninterp spec fn spec_is_uppercase(c: char) -> bool;
pub uninterp spec fn spec_is_alphanumeric(c: char) -> bool;
pub uninterp spec fn spec_is_numeric(c: char) -> bool;

pub open spec fn is_ascii_upper(c: char) -> bool { 'A' <= c && c <= 'Z' }
pub open spec fn is_ascii_lower(c: char) -> bool { 'a' <= c && c <= 'z' }
pub open spec fn is_ascii_digit(c: char) -> bool { '0' <= c && c <= '9' }
pub open spec fn is_ascii(c: char) -> bool { (c as u32) < 0x80 }

pub broadcast axiom fn axiom_is_uppercase_ascii(c: char)
    requires is_ascii(c)
    ensures #[trigger] spec_is_uppercase(c) == is_ascii_upper(c);

pub broadcast axiom fn axiom_is_alphanumeric_ascii(c: char)
    requires is_ascii(c)
    ensures #[trigger] spec_is_alphanumeric(c) == (is_ascii_upper(c) || is_ascii_lower(c) || is_ascii_digit(c));

pub broadcast axiom fn axiom_is_numeric_ascii(c: char)
    requires is_ascii(c)
    ensures #[trigger] spec_is_numeric(c) == is_ascii_digit(c);

pub open spec fn ascii_lower(c: char) -> char {
    if is_ascii_upper(c) { ((c as u8) + 32) as char } else { c }
}
pub open spec fn ascii_upper(c: char) -> char {
    if is_ascii_lower(c) { ((c as u8) - 32) as char } else { c }
}

pub assume_specification[ char::is_uppercase ](c: char) -> (b: bool)
    ensures b == spec_is_uppercase(c);
pub assume_specification[ char::is_alphanumeric ](c: char) -> (b: bool)
    ensures b == spec_is_alphanumeric(c);
pub assume_specification[ char::is_numeric ](c: char) -> (b: bool)
    ensures b == spec_is_numeric(c);
pub assume_specification[ char::to_ascii_lowercase ](c: &char) -> (r: char)
    ensures r == ascii_lower(*c);
pub assume_specification[ char::to_ascii_uppercase ](c: &char) -> (r: char)
    ensures r == ascii_upper(*c);

pub open spec fn seq_ascii_lower(s: Seq<char>) -> Seq<char> { s.map_values(|c: char| ascii_lower(c)) }
pub open spec fn seq_ascii_upper(s: Seq<char>) -> Seq<char> { s.map_values(|c: char| ascii_upper(c)) }

// full Unicode case mapping of a string: uninterpreted
pub uninterp spec fn spec_to_lowercase(s: Seq<char>) -> Seq<char>;
pub uninterp spec fn spec_to_uppercase(s: Seq<char>) -> Seq<char>;

pub assume_specification[ str::to_ascii_lowercase ](s: &str) -> (r: String)
    ensures r@ == seq_ascii_lower(s@);
pub assume_specification[ str::to_ascii_uppercase ](s: &str) -> (r: String)
    ensures r@ == seq_ascii_upper(s@);
pub assume_specification[ str::to_lowercase ](s: &str) -> (r: String)
    ensures r@ == spec_to_lowercase(s@);
pub assume_specification[ str::to_uppercase ](s: &str) -> (r: String)
    ensures r@ == spec_to_uppercase(s@);

// str::replace(char, &str): every occurrence of the char replaced by the string
pub open spec fn spec_replace_char(s: Seq<char>, from: char, to: Seq<char>) -> Seq<char>
    decreases s.len()
{
    if s.len() == 0 { s }
    else if s[0] == from { to + spec_replace_char(s.drop_first(), from, to) }
    else { seq![s[0]] + spec_replace_char(s.drop_first(), from, to) }
}
#[verifier::external_trait_specification]
pub trait ExPattern: Sized {
    type ExternalTraitSpecificationFor: core::str::pattern::Pattern;
}
// what a generic `P: Pattern` argument denotes when P = char (trusted: axiom below)
pub uninterp spec fn pat_char_of<P>(p: P) -> Option<char>;
pub broadcast axiom fn axiom_pat_char(c: char)
    ensures #[trigger] pat_char_of::<char>(c) == Some(c);
pub assume_specification<P: core::str::pattern::Pattern>[ str::replace::<P> ](s: &str, from: P, to: &str) -> (r: String)
    ensures pat_char_of(from) is Some ==> r@ == spec_replace_char(s@, pat_char_of(from)->0, to@);


// char_indices: (byte offset, char) pairs. Offsets are uninterpreted except: offset == 0 exactly for the first char.
pub uninterp spec fn char_offset(s: Seq<char>, k: int) -> usize;
pub broadcast axiom fn axiom_char_offset_zero(s: Seq<char>, k: int)
    requires 0 <= k < s.len()
    ensures (#[trigger] char_offset(s, k) == 0) <==> k == 0;
pub open spec fn spec_char_indices(s: Seq<char>) -> Seq<(usize, char)> {
    Seq::new(s.len(), |k: int| (char_offset(s, k), s[k]))
}

#[verifier::external_type_specification]
#[verifier::external_body]
pub struct ExCharIndices<'a>(core::str::CharIndices<'a>);

pub assume_specification<'a>[ str::char_indices ](s: &'a str) -> (it: core::str::CharIndices<'a>)
    ensures
        it.remaining() == spec_char_indices(s@),
        it.obeys_prophetic_iter_laws(),
        it.decrease() is Some;

// str slicing at byte index 1 (`x[..1]`, `x[1..]`): defined iff x is non-empty and its first char is one byte long.
// Stated through call_requires / call_ensures of Index::index (vstd's own precondition is a disjunct of these).
#[verifier::inline] pub open spec fn idx_req<T: ?Sized + core::ops::Index<I>, I>(s: &T, i: I) -> bool { call_requires(T::index, (s, i)) }
#[verifier::inline] pub open spec fn idx_ens<T: ?Sized + core::ops::Index<I>, I>(s: &T, i: I, out: &T::Output) -> bool { call_ensures(T::index, (s, i), out) }
pub broadcast axiom fn axiom_str_index_to_1(s: &str, r: core::ops::RangeTo<usize>)
    requires r.end == 1, s@.len() > 0, is_ascii(s@[0])
    ensures #[trigger] idx_req::<str, core::ops::RangeTo<usize>>(s, r);
pub broadcast axiom fn axiom_str_index_to_1_val(s: &str, r: core::ops::RangeTo<usize>, out: &str)
    requires r.end == 1, s@.len() > 0, is_ascii(s@[0]), #[trigger] idx_ens::<str, core::ops::RangeTo<usize>>(s, r, out)
    ensures out@ == s@.take(1);
pub broadcast axiom fn axiom_str_index_from_1(s: &str, r: core::ops::RangeFrom<usize>)
    requires r.start == 1, s@.len() > 0, is_ascii(s@[0])
    ensures #[trigger] idx_req::<str, core::ops::RangeFrom<usize>>(s, r);
pub broadcast axiom fn axiom_str_index_from_1_val(s: &str, r: core::ops::RangeFrom<usize>, out: &str)
    requires r.start == 1, s@.len() > 0, is_ascii(s@[0]), #[trigger] idx_ens::<str, core::ops::RangeFrom<usize>>(s, r, out)
    ensures out@ == s@.skip(1);
pub broadcast axiom fn axiom_string_index_to_1(s: &String, r: core::ops::RangeTo<usize>)
    requires r.end == 1, s@.len() > 0, is_ascii(s@[0])
    ensures #[trigger] idx_req::<String, core::ops::RangeTo<usize>>(s, r);
pub broadcast axiom fn axiom_string_index_to_1_val(s: &String, r: core::ops::RangeTo<usize>, out: &str)
    requires r.end == 1, s@.len() > 0, is_ascii(s@[0]), #[trigger] idx_ens::<String, core::ops::RangeTo<usize>>(s, r, out)
    ensures out@ == s@.take(1);
pub broadcast axiom fn axiom_string_index_from_1(s: &String, r: core::ops::RangeFrom<usize>)
    requires r.start == 1, s@.len() > 0, is_ascii(s@[0])
    ensures #[trigger] idx_req::<String, core::ops::RangeFrom<usize>>(s, r);
pub broadcast axiom fn axiom_string_index_from_1_val(s: &String, r: core::ops::RangeFrom<usize>, out: &str)
    requires r.start == 1, s@.len() > 0, is_ascii(s@[0]), #[trigger] idx_ens::<String, core::ops::RangeFrom<usize>>(s, r, out)
    ensures out@ == s@.skip(1);
// `x[1..x.len() - 1]`: defined when x has at least two chars and its first and last char are one byte long
pub broadcast axiom fn axiom_str_index_inner(s: &str, r: core::ops::Range<usize>)
    requires r.start == 1, r.end == byte_len(s@) - 1, s@.len() >= 2, is_ascii(s@[0]), is_ascii(s@.last())
    ensures #[trigger] idx_req::<str, core::ops::Range<usize>>(s, r);
pub broadcast axiom fn axiom_str_index_inner_val(s: &str, r: core::ops::Range<usize>, out: &str)
    requires r.start == 1, r.end == byte_len(s@) - 1, s@.len() >= 2, is_ascii(s@[0]), is_ascii(s@.last()), #[trigger] idx_ens::<str, core::ops::Range<usize>>(s, r, out)
    ensures out@ == s@.subrange(1, s@.len() - 1);
// every char takes at least one byte
pub broadcast axiom fn axiom_byte_len_ge_len(s: Seq<char>)
    ensures #[trigger] byte_len(s) >= s.len();
pub broadcast group group_str_slice_inner { axiom_str_index_inner, axiom_str_index_inner_val, axiom_byte_len_ge_len }
pub broadcast group group_str_slice_1 {
    axiom_string_index_to_1, axiom_string_index_to_1_val, axiom_string_index_from_1, axiom_string_index_from_1_val,
    axiom_str_index_to_1, axiom_str_index_to_1_val, axiom_str_index_from_1, axiom_str_index_from_1_val,
}

// ---- &str patterns (strip_suffix / trim_end_matches / split ...) ----
pub uninterp spec fn pat_str_of<P>(p: P) -> Option<Seq<char>>;
pub broadcast axiom fn axiom_pat_str<'a>(s: &'a str)
    ensures #[trigger] pat_str_of::<&'a str>(s) == Some(s@);

pub open spec fn ends_with(s: Seq<char>, p: Seq<char>) -> bool { p.len() <= s.len() && s.skip(s.len() - p.len()) == p }
pub open spec fn starts_with(s: Seq<char>, p: Seq<char>) -> bool { p.len() <= s.len() && s.take(p.len() as int) == p }

pub assume_specification<'a, P: core::str::pattern::Pattern>[ str::strip_suffix::<P> ](s: &'a str, suffix: P) -> (r: Option<&'a str>)
    where for<'b> <P as core::str::pattern::Pattern>::Searcher<'b>: core::str::pattern::ReverseSearcher<'b>,
    ensures pat_str_of(suffix) is Some ==> (match r {
        Option::Some(t) => ends_with(s@, pat_str_of(suffix)->0) && t@ == s@.take(s@.len() - pat_str_of(suffix)->0.len()),
        Option::None => !ends_with(s@, pat_str_of(suffix)->0),
    });

pub assume_specification<P: core::str::pattern::Pattern>[ str::ends_with::<P> ](s: &str, p: P) -> (r: bool)
    where for<'b> <P as core::str::pattern::Pattern>::Searcher<'b>: core::str::pattern::ReverseSearcher<'b>,
    ensures
        pat_char_of(p) is Some ==> r == (s@.len() > 0 && s@.last() == pat_char_of(p)->0),
        pat_str_of(p) is Some ==> r == ends_with(s@, pat_str_of(p)->0);
pub assume_specification<P: core::str::pattern::Pattern>[ str::contains::<P> ](s: &str, p: P) -> (r: bool)
    ensures pat_char_of(p) is Some ==> r == s@.contains(pat_char_of(p)->0);

// ---- shims for provided Iterator methods (assume_specification cannot reach provided trait methods) ----
// Iterator::all: true means the closure accepted every element; false means it rejected some element
#[verifier::external_body]
pub fn vx_iter_all<I: Iterator, F: FnMut(I::Item) -> bool>(it: I, f: F) -> (r: bool)
    requires forall|x: I::Item| call_requires(f, (x,))
    ensures
        it.obeys_prophetic_iter_laws() && r ==> forall|k: int| 0 <= k < it.remaining().len() ==> call_ensures(f, (#[trigger] it.remaining()[k],), true),
        it.obeys_prophetic_iter_laws() && !r ==> exists|k: int| 0 <= k < it.remaining().len() && call_ensures(f, (#[trigger] it.remaining()[k],), false),
{ let mut it = it; it.all(f) }

pub assume_specification<T, U, F: FnOnce(T) -> U>[ Option::<T>::map_or ](o: Option<T>, d: U, f: F) -> (r: U)
    requires o is Some ==> call_requires(f, (o->0,))
    ensures o is None ==> r == d, o is Some ==> call_ensures(f, (o->0,), r);

// ---- Peekable (peekable() is a provided Iterator method: shim; peek() is inherent) ----
#[verifier::external_type_specification]
#[verifier::external_body]
#[verifier::reject_recursive_types(I)]
pub struct ExPeekable<I: Iterator>(core::iter::Peekable<I>);

#[verifier::external_body]
pub fn vx_peekable<I: Iterator>(it: I) -> (r: core::iter::Peekable<I>)
    ensures
        r.remaining() == it.remaining(),
        it.obeys_prophetic_iter_laws() ==> r.obeys_prophetic_iter_laws(),
        it.decrease() is Some ==> r.decrease() is Some,
{ it.peekable() }

pub assume_specification<'a, I: Iterator>[ core::iter::Peekable::<I>::peek ](it: &'a mut core::iter::Peekable<I>) -> (r: Option<&'a I::Item>)
    ensures
        (*final(it)).remaining() == (*old(it)).remaining(),
        (*final(it)).obeys_prophetic_iter_laws() == (*old(it)).obeys_prophetic_iter_laws(),
        (*final(it)).decrease() == (*old(it)).decrease(),
        (*old(it)).obeys_prophetic_iter_laws() ==> ((r is Some) == ((*old(it)).remaining().len() > 0)),
        (*old(it)).obeys_prophetic_iter_laws() && r is Some ==> *r->0 == (*old(it)).remaining()[0];

// String::from(&str) copies the text
pub broadcast axiom fn axiom_string_from_str_obeys<'a>()
    ensures #[trigger] <String as vstd::std_specs::convert::FromSpec<&'a str>>::obeys_from_spec();
pub broadcast axiom fn axiom_string_from_str<'a>(s: &'a str)
    ensures (#[trigger] <String as vstd::std_specs::convert::FromSpec<&'a str>>::from_spec(s))@ == s@;
pub broadcast group group_string_from_str { axiom_string_from_str_obeys, axiom_string_from_str }

// str::trim_start_matches(&str): strips the pattern from the front as often as it occurs
pub open spec fn trim_start_str(s: Seq<char>, p: Seq<char>) -> Seq<char>
    decreases s.len()
{
    if p.len() > 0 && starts_with(s, p) { trim_start_str(s.skip(p.len() as int), p) } else { s }
}
pub proof fn lemma_trim_start_done(s: Seq<char>, p: Seq<char>)
    requires p.len() > 0
    ensures !starts_with(trim_start_str(s, p), p)
    decreases s.len()
{
    if starts_with(s, p) { lemma_trim_start_done(s.skip(p.len() as int), p); }
}
pub assume_specification<'a, P: core::str::pattern::Pattern>[ str::trim_start_matches::<P> ](s: &'a str, p: P) -> (r: &'a str)
    ensures pat_str_of(p) is Some ==> r@ == trim_start_str(s@, pat_str_of(p)->0);
pub assume_specification<P: core::str::pattern::Pattern>[ str::starts_with::<P> ](s: &str, p: P) -> (r: bool)
    ensures
        pat_str_of(p) is Some ==> r == starts_with(s@, pat_str_of(p)->0),
        pat_char_of(p) is Some ==> r == (s@.len() > 0 && s@[0] == pat_char_of(p)->0);

// ---- byte lengths ----
pub uninterp spec fn byte_len(s: Seq<char>) -> nat;
pub broadcast axiom fn axiom_str_byte_len(s: &str)
    ensures #[trigger] vstd::string::StringSliceAdditionalSpecFns::spec_bytes(s).len() == byte_len(s@),
        // no Rust allocation or slice is larger than isize::MAX bytes (core::alloc::Layout / slice::from_raw_parts contract)
        vstd::string::StringSliceAdditionalSpecFns::spec_bytes(s).len() <= isize::MAX;
pub assume_specification[ String::len ](s: &String) -> (r: usize)
    ensures r as nat == byte_len(s@), r <= isize::MAX;

// ---- str::trim: leading and trailing Unicode whitespace removed (uninterpreted function of the text) ----
pub uninterp spec fn trim_ws(s: Seq<char>) -> Seq<char>;
pub assume_specification<'a>[ str::trim ](s: &'a str) -> (r: &'a str)
    ensures r@ == trim_ws(s@);

// ---- trim_matches(char) ----
pub open spec fn trim_start_char(s: Seq<char>, c: char) -> Seq<char>
    decreases s.len()
{ if s.len() > 0 && s[0] == c { trim_start_char(s.drop_first(), c) } else { s } }
pub open spec fn trim_end_char(s: Seq<char>, c: char) -> Seq<char>
    decreases s.len()
{ if s.len() > 0 && s.last() == c { trim_end_char(s.drop_last(), c) } else { s } }
pub open spec fn trim_char(s: Seq<char>, c: char) -> Seq<char> { trim_end_char(trim_start_char(s, c), c) }
pub assume_specification<'a, P: core::str::pattern::Pattern>[ str::trim_matches::<P> ](s: &'a str, p: P) -> (r: &'a str)
    where for<'b> <P as core::str::pattern::Pattern>::Searcher<'b>: core::str::pattern::DoubleEndedSearcher<'b>,
    ensures pat_char_of(p) is Some ==> r@ == trim_char(s@, pat_char_of(p)->0);

// ---- split(&str) / split_whitespace ----
pub open spec fn views<'a>(s: Seq<&'a str>) -> Seq<Seq<char>> { Seq::new(s.len(), |k: int| s[k]@) }
pub uninterp spec fn split_str(s: Seq<char>, p: Seq<char>) -> Seq<Seq<char>>;   // str::split: always at least one piece
pub broadcast axiom fn axiom_split_nonempty(s: Seq<char>, p: Seq<char>)
    ensures (#[trigger] split_str(s, p)).len() >= 1;
pub uninterp spec fn ws_words(s: Seq<char>) -> Seq<Seq<char>>;                  // str::split_whitespace: the non-empty words

#[verifier::external_type_specification]
#[verifier::external_body]
pub struct ExSplitWhitespace<'a>(core::str::SplitWhitespace<'a>);

// shim for `s.split(<&str>)`: core::str::Split<'a, P> cannot be given an external_type_specification in this Verus (its Clone impl
// is bounded by the GAT `P::Searcher<'a>: Clone`, which crashes the AIR type checker), so the pieces are collected eagerly;
// iterating the collected pieces is iterating the Split
#[verifier::external_body]
pub fn vx_split<'a>(s: &'a str, p: &str) -> (it: std::vec::IntoIter<&'a str>)
    ensures views(it.remaining()) == split_str(s@, p@), it.obeys_prophetic_iter_laws(), it.decrease() is Some
{ s.split(p).collect::<Vec<&'a str>>().into_iter() }
pub assume_specification<'a>[ str::split_whitespace ](s: &'a str) -> (it: core::str::SplitWhitespace<'a>)
    ensures views(it.remaining()) == ws_words(s@), it.obeys_prophetic_iter_laws(), it.decrease() is Some;

// shims for the provided methods Iterator::last / Iterator::map
#[verifier::external_body]
pub fn vx_iter_last<I: Iterator>(it: I) -> (r: Option<I::Item>)
    ensures it.obeys_prophetic_iter_laws() ==> ((r is Some) == (it.remaining().len() > 0)) && (r is Some ==> r->0 == it.remaining().last())
{ it.last() }
#[verifier::external_body]
pub fn vx_iter_map<I: Iterator, B, F: FnMut(I::Item) -> B>(it: I, f: F) -> (r: core::iter::Map<I, F>)
    requires forall|x: I::Item| call_requires(f, (x,))
    ensures
        r.remaining().len() == it.remaining().len(),
        forall|k: int| 0 <= k < it.remaining().len() ==> call_ensures(f, (#[trigger] it.remaining()[k],), r.remaining()[k]),
        it.obeys_prophetic_iter_laws() ==> r.obeys_prophetic_iter_laws(),
        it.decrease() is Some ==> r.decrease() is Some,
{ it.map(f) }

// ---- ordering of strings (`a < b` on &str): lexicographic by bytes; only its being a strict total order is used ----
pub uninterp spec fn str_cmp(a: Seq<char>, b: Seq<char>) -> core::cmp::Ordering;
pub open spec fn str_lt(a: Seq<char>, b: Seq<char>) -> bool { str_cmp(a, b) is Less }
pub broadcast axiom fn axiom_str_partial_ord_obeys<'a, 'b>()
    ensures #[trigger] <&'a str as vstd::std_specs::cmp::PartialOrdSpec<&'b str>>::obeys_partial_cmp_spec();
pub broadcast axiom fn axiom_str_partial_ord<'a, 'b>(x: &'a str, y: &'b str)
    ensures #[trigger] <&'a str as vstd::std_specs::cmp::PartialOrdSpec<&'b str>>::partial_cmp_spec(&x, &y) == Some(str_cmp(x@, y@));
pub broadcast group group_str_ord { axiom_str_partial_ord_obeys, axiom_str_partial_ord }
pub broadcast axiom fn axiom_str_cmp_total(a: Seq<char>, b: Seq<char>)
    ensures
        (#[trigger] str_cmp(a, b) is Equal) <==> a == b,
        str_cmp(a, b) is Less <==> str_cmp(b, a) is Greater;
pub broadcast axiom fn axiom_str_cmp_trans(a: Seq<char>, b: Seq<char>, c: Seq<char>)
    requires #[trigger] str_cmp(a, b) is Less, #[trigger] str_cmp(b, c) is Less
    ensures str_cmp(a, c) is Less;

// ---- further char / str contracts (not used by the current tree; present so that a plausible edit of the lifted code
// ---- lands in a verdict instead of "unsupported std function") ----
pub uninterp spec fn spec_is_lowercase(c: char) -> bool;
pub uninterp spec fn spec_is_alphabetic(c: char) -> bool;
pub assume_specification[ char::is_ascii_uppercase ](c: &char) -> (b: bool) ensures b == is_ascii_upper(*c);
pub assume_specification[ char::is_ascii_lowercase ](c: &char) -> (b: bool) ensures b == is_ascii_lower(*c);
pub assume_specification[ char::is_ascii_digit ](c: &char) -> (b: bool) ensures b == is_ascii_digit(*c);
pub assume_specification[ char::is_ascii_alphabetic ](c: &char) -> (b: bool) ensures b == (is_ascii_upper(*c) || is_ascii_lower(*c));
pub assume_specification[ char::is_ascii_alphanumeric ](c: &char) -> (b: bool) ensures b == (is_ascii_upper(*c) || is_ascii_lower(*c) || is_ascii_digit(*c));
pub assume_specification[ char::is_ascii ](c: &char) -> (b: bool) ensures b == is_ascii(*c);
pub assume_specification[ char::is_lowercase ](c: char) -> (b: bool) ensures b == spec_is_lowercase(c);
pub assume_specification[ char::is_alphabetic ](c: char) -> (b: bool) ensures b == spec_is_alphabetic(c);
pub broadcast axiom fn axiom_is_lowercase_ascii(c: char)
    requires is_ascii(c)
    ensures #[trigger] spec_is_lowercase(c) == is_ascii_lower(c);
pub broadcast axiom fn axiom_is_alphabetic_ascii(c: char)
    requires is_ascii(c)
    ensures #[trigger] spec_is_alphabetic(c) == (is_ascii_upper(c) || is_ascii_lower(c));

pub open spec fn trim_end_str(s: Seq<char>, p: Seq<char>) -> Seq<char>
    decreases s.len()
{
    if p.len() > 0 && ends_with(s, p) { trim_end_str(s.take(s.len() - p.len()), p) } else { s }
}
pub assume_specification<'a, P: core::str::pattern::Pattern>[ str::trim_end_matches::<P> ](s: &'a str, p: P) -> (r: &'a str)
    where for<'b> <P as core::str::pattern::Pattern>::Searcher<'b>: core::str::pattern::ReverseSearcher<'b>,
    ensures
        pat_str_of(p) is Some ==> r@ == trim_end_str(s@, pat_str_of(p)->0),
        pat_char_of(p) is Some ==> r@ == trim_end_char(s@, pat_char_of(p)->0);
pub assume_specification<'a, P: core::str::pattern::Pattern>[ str::strip_prefix::<P> ](s: &'a str, prefix: P) -> (r: Option<&'a str>)
    ensures pat_str_of(prefix) is Some ==> (match r {
        Option::Some(t) => starts_with(s@, pat_str_of(prefix)->0) && t@ == s@.skip(pat_str_of(prefix)->0.len() as int),
        Option::None => !starts_with(s@, pat_str_of(prefix)->0),
    });

// more shims for provided Iterator methods
#[verifier::external_body]
pub fn vx_iter_nth<I: Iterator>(it: I, n: usize) -> (r: Option<I::Item>)
    ensures it.obeys_prophetic_iter_laws() ==> ((r is Some) == (n < it.remaining().len())) && (r is Some ==> r->0 == it.remaining()[n as int])
{ let mut it = it; it.nth(n) }
#[verifier::external_body]
pub fn vx_iter_count<I: Iterator>(it: I) -> (r: usize)
    ensures it.obeys_prophetic_iter_laws() ==> r == it.remaining().len()
{ it.count() }
#[verifier::external_body]
pub fn vx_iter_any<I: Iterator, F: FnMut(I::Item) -> bool>(it: I, f: F) -> (r: bool)
    requires forall|x: I::Item| call_requires(f, (x,))
    ensures
        it.obeys_prophetic_iter_laws() && r ==> exists|k: int| 0 <= k < it.remaining().len() && call_ensures(f, (#[trigger] it.remaining()[k],), true),
        it.obeys_prophetic_iter_laws() && !r ==> forall|k: int| 0 <= k < it.remaining().len() ==> call_ensures(f, (#[trigger] it.remaining()[k],), false),
{ let mut it = it; it.any(f) }

// ---- str::find(char) and slicing at the byte offset it returns ----
// first char index holding c
pub open spec fn first_index_of(s: Seq<char>, c: char) -> Option<int> {
    if s.contains(c) { Option::Some(choose|k: int| 0 <= k < s.len() && s[k] == c && (forall|j: int| 0 <= j < k ==> s[j] != c)) } else { Option::None }
}
pub proof fn lemma_exists_first(s: Seq<char>, c: char, n: int)
    requires 0 <= n < s.len(), s[n] == c
    ensures exists|k: int| 0 <= k <= n && s[k] == c && (forall|j: int| 0 <= j < k ==> s[j] != c)
    decreases n
{
    if exists|m: int| 0 <= m < n && s[m] == c {
        let m = choose|m: int| 0 <= m < n && s[m] == c;
        lemma_exists_first(s, c, m);
    }
}
pub broadcast proof fn lemma_first_index(s: Seq<char>, c: char)
    requires s.contains(c)
    ensures ({ let k = (#[trigger] first_index_of(s, c))->0; 0 <= k < s.len() && s[k] == c && (forall|j: int| 0 <= j < k ==> s[j] != c) })
{
    let n = choose|n: int| 0 <= n < s.len() && s[n] == c;
    lemma_exists_first(s, c, n);
}
pub assume_specification<P: core::str::pattern::Pattern>[ str::find::<P> ](s: &str, p: P) -> (r: Option<usize>)
    ensures pat_char_of(p) is Some ==> (match r {
        Option::Some(i) => s@.contains(pat_char_of(p)->0) && i == char_offset(s@, first_index_of(s@, pat_char_of(p)->0)->0),
        Option::None => !s@.contains(pat_char_of(p)->0),
    });
// `x[..n]` with n the byte offset of the k-th char is defined and is the first k chars
pub broadcast axiom fn axiom_str_index_to_offset(s: &str, r: core::ops::RangeTo<usize>, k: int)
    requires 0 <= k < s@.len(), r.end == #[trigger] char_offset(s@, k)
    ensures #[trigger] idx_req::<str, core::ops::RangeTo<usize>>(s, r);
pub broadcast axiom fn axiom_str_index_to_offset_val(s: &str, r: core::ops::RangeTo<usize>, out: &str, k: int)
    requires 0 <= k < s@.len(), r.end == #[trigger] char_offset(s@, k), #[trigger] idx_ens::<str, core::ops::RangeTo<usize>>(s, r, out)
    ensures out@ == s@.take(k);
pub broadcast axiom fn axiom_string_index_to_offset(s: &String, r: core::ops::RangeTo<usize>, k: int)
    requires 0 <= k < s@.len(), r.end == #[trigger] char_offset(s@, k)
    ensures #[trigger] idx_req::<String, core::ops::RangeTo<usize>>(s, r);
pub broadcast axiom fn axiom_string_index_to_offset_val(s: &String, r: core::ops::RangeTo<usize>, out: &str, k: int)
    requires 0 <= k < s@.len(), r.end == #[trigger] char_offset(s@, k), #[trigger] idx_ens::<String, core::ops::RangeTo<usize>>(s, r, out)
    ensures out@ == s@.take(k);
pub broadcast group group_str_slice_offset {
    axiom_str_index_to_offset, axiom_str_index_to_offset_val, axiom_string_index_to_offset, axiom_string_index_to_offset_val,
}

// str::split_once(&str): the text before and after the FIRST occurrence of the pattern
pub open spec fn contains_str(s: Seq<char>, p: Seq<char>) -> bool { exists|i: int| 0 <= i <= s.len() - p.len() && #[trigger] s.subrange(i, i + p.len()) == p }
pub assume_specification<'a, P: core::str::pattern::Pattern>[ str::split_once::<P> ](s: &'a str, delimiter: P) -> (r: Option<(&'a str, &'a str)>)
    ensures pat_str_of(delimiter) is Some ==> (match r {
        Option::Some((a, b)) => s@ == a@ + pat_str_of(delimiter)->0 + b@ && !contains_str(a@ + pat_str_of(delimiter)->0.drop_last(), pat_str_of(delimiter)->0),
        Option::None => !contains_str(s@, pat_str_of(delimiter)->0),
    });

} // verus!
