// ---- property-level spec for C04 / C15: lexical shape of property names and doc comments ----
verus! {

// characters of an identifier-like property name (Unicode alphanumerics are taken to be TS identifier characters: listed assumption)
pub open spec fn ok_char(c: char) -> bool { spec_is_alphanumeric(c) || c == '_' || c == '$' }
pub open spec fn ident_like(s: Seq<char>) -> bool {
    s.len() > 0 && !spec_is_numeric(s[0]) && forall|k: int| 0 <= k < s.len() ==> ok_char(#[trigger] s[k])
}

// escaping inside a double-quoted TypeScript string literal
pub open spec fn esc_char(c: char) -> Seq<char> {
    if c == '"' { seq!['\\', '"'] } else if c == '\\' { seq!['\\', '\\'] } else if c == '\n' { seq!['\\', 'n'] } else if c == '\r' { seq!['\\', 'r'] } else { seq![c] }
}
pub open spec fn ts_escape(s: Seq<char>) -> Seq<char>
    decreases s.len()
{
    if s.len() == 0 { Seq::<char>::empty() } else { esc_char(s[0]) + ts_escape(s.drop_first()) }
}
pub open spec fn ts_quote(s: Seq<char>) -> Seq<char> { seq!['"'] + ts_escape(s) + seq!['"'] }

// decoding of a literal body as a TypeScript scanner does it; None if the body contains a raw quote / line break or a bad escape
pub open spec fn ts_unescape(t: Seq<char>) -> Option<Seq<char>>
    decreases t.len()
{
    if t.len() == 0 { Some(Seq::<char>::empty()) }
    else if t[0] == '\\' {
        if t.len() < 2 { None }
        else {
            let d = if t[1] == 'n' { Some('\n') } else if t[1] == 'r' { Some('\r') } else if t[1] == '"' { Some('"') } else if t[1] == '\\' { Some('\\') } else { None };
            match (d, ts_unescape(t.skip(2))) { (Some(c), Some(rest)) => Some(seq![c] + rest), _ => None }
        }
    }
    else if t[0] == '"' || t[0] == '\n' || t[0] == '\r' { None }
    else { match ts_unescape(t.skip(1)) { Some(rest) => Some(seq![t[0]] + rest), None => None } }
}

pub proof fn lemma_escape_push(s: Seq<char>, c: char)
    ensures ts_escape(s.push(c)) == ts_escape(s) + esc_char(c)
    decreases s.len()
{
    if s.len() == 0 {
        assert(s.push(c).drop_first() =~= s);
        assert(ts_escape(s.push(c)) =~= esc_char(c) + ts_escape(s));
        assert(ts_escape(s) + esc_char(c) =~= esc_char(c));
    } else {
        assert(s.push(c).drop_first() =~= s.drop_first().push(c));
        lemma_escape_push(s.drop_first(), c);
        assert(ts_escape(s.push(c)) =~= esc_char(s[0]) + (ts_escape(s.drop_first()) + esc_char(c)));
        assert(ts_escape(s) + esc_char(c) =~= esc_char(s[0]) + ts_escape(s.drop_first()) + esc_char(c));
    }
}

// the literal denotes exactly the name: a TypeScript scanner reads ts_escape(s) back as s (so the quote ends where it should)
pub proof fn lemma_unescape_escape(s: Seq<char>)
    ensures ts_unescape(ts_escape(s)) == Some(s)
    decreases s.len()
{
    if s.len() > 0 {
        let c = s[0];
        let rest = s.drop_first();
        lemma_unescape_escape(rest);
        let t = ts_escape(s);
        assert(t == esc_char(c) + ts_escape(rest));
        if c == '"' || c == '\\' || c == '\n' || c == '\r' {
            assert(t[0] == '\\');
            assert(t.skip(2) =~= ts_escape(rest));
            assert(seq![c] + rest =~= s);
        } else {
            assert(t[0] == c);
            assert(t.skip(1) =~= ts_escape(rest));
            assert(seq![c] + rest =~= s);
        }
    }
}

// ---- doc comments ----
// no `*/` anywhere in t
pub open spec fn no_close(t: Seq<char>) -> bool { forall|i: int| 0 <= i < t.len() - 1 ==> !(#[trigger] t[i] == '*' && t[i + 1] == '/') }
// exactly one block comment followed by a line break: `/**` ... `*/\n`, the first `*/` being the final one
pub open spec fn single_block_comment(t: Seq<char>) -> bool {
    &&& t.len() >= 6
    &&& t[0] == '/' && t[1] == '*' && t[2] == '*'
    &&& t[t.len() - 3] == '*' && t[t.len() - 2] == '/' && t[t.len() - 1] == '\n'
    &&& forall|i: int| 0 <= i < t.len() - 3 ==> !(#[trigger] t[i] == '*' && t[i + 1] == '/')
}

// appending text that contains no `*/` and does not complete one across the seam keeps the comment open
pub broadcast proof fn lemma_no_close_append(a: Seq<char>, b: Seq<char>)
    requires no_close(a), no_close(b), !(a.len() > 0 && b.len() > 0 && a.last() == '*' && b[0] == '/')
    ensures #[trigger] no_close(a + b)
{
    let t = a + b;
    assert forall|i: int| 0 <= i < t.len() - 1 implies !(#[trigger] t[i] == '*' && t[i + 1] == '/') by {
        if i + 1 < a.len() { assert(t[i] == a[i] && t[i + 1] == a[i + 1]); }
        else if i >= a.len() { assert(t[i] == b[i - a.len()] && t[i + 1] == b[i + 1 - a.len()]); }
        else { assert(t[i] == a.last() && t[i + 1] == b[0]); }
    }
}
pub broadcast proof fn lemma_no_close_push(a: Seq<char>, c: char)
    requires no_close(a), !(a.len() > 0 && a.last() == '*' && c == '/')
    ensures #[trigger] no_close(a.push(c))
{
    let t = a.push(c);
    assert forall|i: int| 0 <= i < t.len() - 1 implies !(#[trigger] t[i] == '*' && t[i + 1] == '/') by {
        if i + 1 < a.len() { assert(t[i] == a[i] && t[i + 1] == a[i + 1]); }
    }
}
// closing an open comment body with `*/\n` (directly, or after `\n `) yields exactly one block comment
pub proof fn lemma_close_comment(body: Seq<char>, tail: Seq<char>)
    requires
        no_close(body), body.len() >= 3, body[0] == '/' && body[1] == '*' && body[2] == '*',
        (tail.len() == 3 && tail[0] == '*' && tail[1] == '/' && tail[2] == '\n')
            || (tail.len() == 5 && tail[0] == '\n' && tail[1] == ' ' && tail[2] == '*' && tail[3] == '/' && tail[4] == '\n'),
    ensures single_block_comment(body + tail)
{
    let t = body + tail;
    assert forall|i: int| 0 <= i < t.len() - 3 implies !(#[trigger] t[i] == '*' && t[i + 1] == '/') by {
        if i + 1 < body.len() { assert(t[i] == body[i] && t[i + 1] == body[i + 1]); }
        else if i >= body.len() { assert(t[i] == tail[i - body.len()] && t[i + 1] == tail[i + 1 - body.len()]); }
        else { assert(t[i + 1] == tail[0]); }
    }
    assert(t[0] == body[0] && t[1] == body[1] && t[2] == body[2]);
}


// ---- the text of a doc comment inside the block (C15: "contains the documentation text") ----
// every character of the text in order; a `\` is put in front of a `/` that follows a `*` (the `*` may be the last character
// already in the buffer: `star0`)
pub open spec fn star_before(star0: bool, d: Seq<char>, i: int) -> bool { if i <= 0 { star0 } else { d[i - 1] == '*' } }
pub open spec fn doc_esc(star0: bool, d: Seq<char>) -> Seq<char>
    decreases d.len()
{
    if d.len() == 0 { Seq::<char>::empty() }
    else {
        let p = d.drop_last();
        doc_esc(star0, p) + (if d.last() == '/' && star_before(star0, d, d.len() - 1) { seq!['\\'] } else { Seq::<char>::empty() }) + seq![d.last()]
    }
}
// e is d with some backslashes inserted (nothing else added, nothing removed, order kept)
pub open spec fn only_backslashes_inserted(d: Seq<char>, e: Seq<char>) -> bool
    decreases e.len()
{
    if e.len() == 0 { d.len() == 0 }
    else {
        (d.len() > 0 && d.last() == e.last() && only_backslashes_inserted(d.drop_last(), e.drop_last()))
        || (e.last() == '\\' && only_backslashes_inserted(d, e.drop_last()))
    }
}
pub proof fn lemma_doc_esc_carries_the_text(star0: bool, d: Seq<char>)
    ensures only_backslashes_inserted(d, doc_esc(star0, d))
    decreases d.len()
{
    if d.len() > 0 {
        let p = d.drop_last();
        lemma_doc_esc_carries_the_text(star0, p);
        let e = doc_esc(star0, d);
        assert(e.last() == d.last());
        if d.last() == '/' && star_before(star0, d, d.len() - 1) {
            let mid = doc_esc(star0, p) + seq!['\\'];
            assert(e.drop_last() =~= mid);
            assert(mid.drop_last() =~= doc_esc(star0, p));
            assert(mid.last() == '\\');
            assert(only_backslashes_inserted(p, mid));
        } else {
            assert(e.drop_last() =~= doc_esc(star0, p));
        }
    }
}
// the rendering parse_docs produces for the texts of the doc attributes
pub open spec fn doc_lines(ds: Seq<Seq<char>>, n: int) -> Seq<char>
    decreases n
{
    if n <= 0 { Seq::<char>::empty() }
    else { doc_lines(ds, n - 1) + " *"@ + doc_esc(true, ds[n - 1]) + (if n < ds.len() { seq!['\n'] } else { Seq::<char>::empty() }) }
}
pub open spec fn render_docs(ds: Seq<Seq<char>>) -> Seq<char> {
    if ds.len() == 0 { Seq::<char>::empty() }
    else if ds.len() == 1 && ds[0].contains('\n') { "/**"@ + doc_esc(true, ds[0]) + "*/\n"@ }
    else { "/**\n"@ + doc_lines(ds, ds.len() as int) + "\n */\n"@ }
}

// ---- intersection of object types as ts_rs::__private::intersect writes it (fix D17) ----
pub open spec fn glue(acc: Seq<char>, ty: Seq<char>) -> Seq<char> {
    if ends_with(acc, " }"@) && starts_with(ty, "{ "@) { acc.take(acc.len() - 2) + " "@ + ty.skip(2) }
    else if acc.len() == 0 { ty }
    else { acc + " & "@ + ty }
}
pub open spec fn glue_all(ts: Seq<String>) -> Seq<char>
    decreases ts.len()
{ if ts.len() == 0 { Seq::<char>::empty() } else { glue(glue_all(ts.drop_last()), ts.last()@) } }
pub broadcast proof fn lemma_glue_two(ts: Seq<String>)
    requires ts.len() == 2,
    ensures #[trigger] glue_all(ts) == glue(ts[0]@, ts[1]@),
{
    reveal_strlit(" }");
    assert(ts.drop_last().drop_last() =~= Seq::<String>::empty());
    assert(glue_all(ts.drop_last().drop_last()) =~= Seq::<char>::empty());
    assert(ts.drop_last().last() == ts[0]);
    assert(glue_all(ts.drop_last()) == glue(Seq::<char>::empty(), ts[0]@));
    assert(glue(Seq::<char>::empty(), ts[0]@) == ts[0]@);
}


} // verus!
