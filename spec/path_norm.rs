// ---- property-level spec for C08 / C17 / C06 / C11: lexical normalisation of component sequences ----
verus! {

// `..` removes a preceding normal component and nothing else; `.` is dropped
pub open spec fn norm_step<'a>(acc: Option<Seq<Comp<'a>>>, c: Comp<'a>) -> Option<Seq<Comp<'a>>> {
    match acc {
        None => None,
        Some(out) => match c {
            Comp::CurDir => Some(out),
            Comp::ParentDir => if out.len() > 0 && out.last() is Normal { Some(out.drop_last()) } else { None },
            c => Some(out.push(c)),
        },
    }
}
pub open spec fn norm_prefix<'a>(s: Seq<Comp<'a>>, n: int) -> Option<Seq<Comp<'a>>>
    decreases n
{
    if n <= 0 { Some(Seq::<Comp<'a>>::empty()) } else { norm_step(norm_prefix(s, n - 1), s[n - 1]) }
}
pub open spec fn norm<'a>(s: Seq<Comp<'a>>) -> Option<Seq<Comp<'a>>> { norm_prefix(s, s.len() as int) }

// once a prefix has climbed above the root, so has every longer prefix
pub broadcast proof fn lemma_norm_none_mono<'a>(s: Seq<Comp<'a>>, n: int, m: int)
    requires n <= m, #[trigger] norm_prefix(s, n) is None
    ensures #[trigger] norm_prefix(s, m) is None
    decreases m - n
{
    if n < m { lemma_norm_none_mono(s, n, m - 1); }
}

// a `..` that meets anything but a normal component makes the whole path climb above the root
pub broadcast proof fn lemma_norm_stuck<'a>(s: Seq<Comp<'a>>, n: int)
    requires
        0 <= n < s.len(),
        (#[trigger] norm_prefix(s, n)) is Some,
        s[n] is ParentDir,
        !(norm_prefix(s, n)->0.len() > 0 && norm_prefix(s, n)->0.last() is Normal),
    ensures norm(s) is None
{
    assert(norm_prefix(s, n + 1) is None);
    lemma_norm_none_mono(s, n + 1, s.len() as int);
}

// canonical absolute form: the root, then normal components only
pub open spec fn is_canonical(s: Seq<Comp>) -> bool {
    s.len() > 0 && s[0] is RootDir && forall|k: int| 1 <= k < s.len() ==> #[trigger] s[k] is Normal
}

// what `absolute(p)` must compute
pub open spec fn abs_of<'a>(p: Seq<Comp<'a>>) -> Option<Seq<Comp<'a>>> { norm(join_comps(spec_cwd(), p)) }

} // verus!
