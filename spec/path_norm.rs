// ---- property-level spec for C08 / C17 / C06 / C11: lexical normalisation of component sequences ----
verus! {

// `..` removes a preceding normal component and nothing else; `.` is dropped
pub open spec fn norm_step<'a>(acc: Option<Seq<Comp<'a>>>, c: Comp<'a>) -> Option<Seq<Comp<'a>>> {
    match acc {
        None => None,
        Some(out) => match c {
            Comp::CurDir => Some(out),
            Comp::ParentDir => if out.len() > 0 && out.last() is Normal { Some(out.drop_last()) } else { None },
            c => Some(out.push(c)),
        },
    }
}
pub open spec fn norm_prefix<'a>(s: Seq<Comp<'a>>, n: int) -> Option<Seq<Comp<'a>>>
    decreases n
{
    if n <= 0 { Some(Seq::<Comp<'a>>::empty()) } else { norm_step(norm_prefix(s, n - 1), s[n - 1]) }
}
pub open spec fn norm<'a>(s: Seq<Comp<'a>>) -> Option<Seq<Comp<'a>>> { norm_prefix(s, s.len() as int) }

// once a prefix has climbed above the root, so has every longer prefix
pub broadcast proof fn lemma_norm_none_mono<'a>(s: Seq<Comp<'a>>, n: int, m: int)
    requires n <= m, #[trigger] norm_prefix(s, n) is None
    ensures #[trigger] norm_prefix(s, m) is None
    decreases m - n
{
    if n < m { lemma_norm_none_mono(s, n, m - 1); }
}

// a `..` that meets anything but a normal component makes the whole path climb above the root
pub broadcast proof fn lemma_norm_stuck<'a>(s: Seq<Comp<'a>>, n: int)
    requires
        0 <= n < s.len(),
        (#[trigger] norm_prefix(s, n)) is Some,
        s[n] is ParentDir,
        !(norm_prefix(s, n)->0.len() > 0 && norm_prefix(s, n)->0.last() is Normal),
    ensures norm(s) is None
{
    assert(norm_prefix(s, n + 1) is None);
    lemma_norm_none_mono(s, n + 1, s.len() as int);
}

// canonical absolute form: the root, then normal components only
pub open spec fn is_canonical(s: Seq<Comp>) -> bool {
    s.len() > 0 && s[0] is RootDir && forall|k: int| 1 <= k < s.len() ==> #[trigger] s[k] is Normal
}

// what `absolute(p)` must compute
pub open spec fn abs_of<'a>(p: Seq<Comp<'a>>) -> Option<Seq<Comp<'a>>> { norm(join_comps(spec_cwd(), p)) }

// left fold form of norm, convenient for concatenation
pub open spec fn norm_fold<'a>(acc: Option<Seq<Comp<'a>>>, s: Seq<Comp<'a>>) -> Option<Seq<Comp<'a>>>
    decreases s.len()
{
    if s.len() == 0 { acc } else { norm_fold(norm_step(acc, s[0]), s.drop_first()) }
}

pub proof fn lemma_fold_push<'a>(acc: Option<Seq<Comp<'a>>>, s: Seq<Comp<'a>>, c: Comp<'a>)
    ensures norm_fold(acc, s.push(c)) == norm_step(norm_fold(acc, s), c)
    decreases s.len()
{
    if s.len() == 0 {
        assert(s.push(c).drop_first() =~= s);
        assert(norm_fold(norm_step(acc, c), s.push(c).drop_first()) == norm_step(acc, c));
    } else {
        assert(s.push(c).drop_first() =~= s.drop_first().push(c));
        lemma_fold_push(norm_step(acc, s[0]), s.drop_first(), c);
    }
}

pub proof fn lemma_prefix_is_fold<'a>(s: Seq<Comp<'a>>, n: int)
    requires 0 <= n <= s.len()
    ensures norm_prefix(s, n) == norm_fold(Some(Seq::<Comp<'a>>::empty()), s.take(n))
    decreases n
{
    if n > 0 {
        lemma_prefix_is_fold(s, n - 1);
        assert(s.take(n) =~= s.take(n - 1).push(s[n - 1]));
        lemma_fold_push(Some(Seq::<Comp<'a>>::empty()), s.take(n - 1), s[n - 1]);
    } else {
        assert(s.take(0).len() == 0);
    }
}

pub proof fn lemma_fold_concat<'a>(acc: Option<Seq<Comp<'a>>>, x: Seq<Comp<'a>>, y: Seq<Comp<'a>>)
    ensures norm_fold(acc, x + y) == norm_fold(norm_fold(acc, x), y)
    decreases x.len()
{
    if x.len() == 0 {
        assert(x + y =~= y);
    } else {
        assert((x + y).drop_first() =~= x.drop_first() + y);
        lemma_fold_concat(norm_step(acc, x[0]), x.drop_first(), y);
    }
}

pub open spec fn parents<'a>(n: int) -> Seq<Comp<'a>> { Seq::new(n as nat, |k: int| Comp::ParentDir) }
pub open spec fn all_normal(s: Seq<Comp>) -> bool { forall|k: int| 0 <= k < s.len() ==> #[trigger] s[k] is Normal }

// folding normal components appends them
pub proof fn lemma_fold_normals<'a>(out: Seq<Comp<'a>>, y: Seq<Comp<'a>>)
    requires all_normal(y)
    ensures norm_fold(Some(out), y) == Some(out + y)
    decreases y.len()
{
    if y.len() == 0 { assert(out + y =~= out); }
    else {
        assert(y[0] is Normal);
        assert(norm_step(Some(out), y[0]) == Some(out.push(y[0])));
        lemma_fold_normals(out.push(y[0]), y.drop_first());
        assert(out.push(y[0]) + y.drop_first() =~= out + y);
    }
}

// folding m `..` removes m trailing normal components
pub proof fn lemma_fold_parents<'a>(out: Seq<Comp<'a>>, m: int)
    requires 0 <= m <= out.len(), all_normal(out.skip(out.len() - m))
    ensures norm_fold(Some(out), parents(m)) == Some(out.take(out.len() - m))
    decreases m
{
    if m == 0 { assert(out.take(out.len() as int) =~= out); }
    else {
        let p = parents::<'a>(m);
        assert(p[0] is ParentDir);
        assert(out.skip(out.len() - m)[m - 1] is Normal);
        assert(out.last() is Normal);
        assert(norm_step(Some(out), p[0]) == Some(out.drop_last()));
        assert(p.drop_first() =~= parents::<'a>(m - 1));
        let o2 = out.drop_last();
        assert forall|k: int| 0 <= k < o2.skip(o2.len() - (m - 1)).len() implies #[trigger] o2.skip(o2.len() - (m - 1))[k] is Normal by {
            assert(o2.skip(o2.len() - (m - 1))[k] == out.skip(out.len() - m)[k]);
        }
        lemma_fold_parents(o2, m - 1);
        assert(o2.take(o2.len() - (m - 1)) =~= out.take(out.len() - m));
    }
}

// k is the length of the longest common prefix of a and b
pub open spec fn lcp_is(a: Seq<Comp>, b: Seq<Comp>, k: int) -> bool {
    &&& 0 <= k <= a.len() && k <= b.len()
    &&& a.take(k) == b.take(k)
    &&& (k < a.len() && k < b.len() ==> a[k] != b[k])
}
pub open spec fn diff_of<'a>(a: Seq<Comp<'a>>, b: Seq<Comp<'a>>, k: int) -> Seq<Comp<'a>> { parents(b.len() - k) + a.skip(k) }

// the law C08 needs: resolving the relative path against the base gives the target
pub proof fn lemma_diff_resolves<'a>(a: Seq<Comp<'a>>, b: Seq<Comp<'a>>, k: int)
    requires is_canonical(a), is_canonical(b), lcp_is(a, b, k), k >= 1
    ensures norm(b + diff_of(a, b, k)) == Some(a)
{
    let s = b + diff_of(a, b, k);
    lemma_prefix_is_fold(s, s.len() as int);
    assert(s.take(s.len() as int) =~= s);
    let e = Some(Seq::<Comp<'a>>::empty());
    lemma_fold_concat(e, b, diff_of(a, b, k));
    // fold over b: root then normals
    assert(b =~= seq![b[0]] + b.skip(1));
    lemma_fold_concat(e, seq![b[0]], b.skip(1));
    assert(norm_fold(e, seq![b[0]]) == Some(seq![b[0]])) by {
        let em = Seq::<Comp<'a>>::empty();
        assert(seq![b[0]] =~= em.push(b[0]));
        lemma_fold_push(e, em, b[0]);
        assert(norm_fold(e, em) == e);
        assert(b[0] is RootDir);
        assert(norm_step(e, b[0]) == Some(em.push(b[0])));
    }
    assert(all_normal(b.skip(1)));
    lemma_fold_normals(seq![b[0]], b.skip(1));
    assert(norm_fold(e, b) == Some(b));
    lemma_fold_concat(Some(b), parents(b.len() - k), a.skip(k));
    assert(all_normal(b.skip(b.len() - (b.len() - k)))) by { assert(b.skip(b.len() - (b.len() - k)) =~= b.skip(k)); }
    lemma_fold_parents(b, b.len() - k);
    assert(b.take(b.len() - (b.len() - k)) =~= b.take(k));
    assert(all_normal(a.skip(k)));
    lemma_fold_normals(b.take(k), a.skip(k));
    assert(a.take(k) + a.skip(k) =~= a);
}

// a relative path as diff_paths builds it: `..`s first, then normal components
pub open spec fn rel_shape(s: Seq<Comp>) -> bool {
    exists|m: int| 0 <= m <= s.len() && #[trigger] s.take(m) == parents(m) && all_normal(s.skip(m))
}

// length of the longest common prefix
pub open spec fn lcp_len(a: Seq<Comp>, b: Seq<Comp>) -> int
    decreases a.len()
{
    if a.len() > 0 && b.len() > 0 && a[0] == b[0] { 1 + lcp_len(a.drop_first(), b.drop_first()) } else { 0 }
}
pub proof fn lemma_lcp_len_is(a: Seq<Comp>, b: Seq<Comp>)
    ensures lcp_is(a, b, lcp_len(a, b))
    decreases a.len()
{
    if a.len() > 0 && b.len() > 0 && a[0] == b[0] {
        let a1 = a.drop_first(); let b1 = b.drop_first();
        lemma_lcp_len_is(a1, b1);
        let k = lcp_len(a1, b1);
        assert(a.take(k + 1) =~= seq![a[0]] + a1.take(k));
        assert(b.take(k + 1) =~= seq![b[0]] + b1.take(k));
        if k + 1 < a.len() && k + 1 < b.len() { assert(a[k + 1] == a1[k]); assert(b[k + 1] == b1[k]); }
    } else {
        assert(a.take(0) =~= b.take(0));
    }
}
pub broadcast proof fn lemma_lcp_unique(a: Seq<Comp>, b: Seq<Comp>, j: int)
    requires
        0 <= j <= a.len(), j <= b.len(), #[trigger] a.take(j) == #[trigger] b.take(j),
        j < a.len() && j < b.len() ==> a[j] != b[j],
    ensures lcp_len(a, b) == j
    decreases a.len()
{
    if j == 0 {
    } else {
        assert(a.take(j)[0] == a[0]);
        assert(b.take(j)[0] == b[0]);
        assert(a[0] == b[0]);
        let a1 = a.drop_first(); let b1 = b.drop_first();
        assert(a1.take(j - 1) =~= a.take(j).drop_first());
        assert(b1.take(j - 1) =~= b.take(j).drop_first());
        if j - 1 < a1.len() && j - 1 < b1.len() { assert(a1[j - 1] == a[j]); assert(b1[j - 1] == b[j]); }
        lemma_lcp_unique(a1, b1, j - 1);
    }
}
pub proof fn lemma_diff_shape<'a>(a: Seq<Comp<'a>>, b: Seq<Comp<'a>>, k: int)
    requires is_canonical(a), is_canonical(b), lcp_is(a, b, k)
    ensures k >= 1, rel_shape(diff_of(a, b, k)), comps_roundtrip(diff_of(a, b, k))
{
    if k == 0 { assert(a[0] is RootDir && b[0] is RootDir); assert(a[0] == b[0]); }
    let d = diff_of(a, b, k);
    let m = b.len() - k;
    assert(d.take(m) =~= parents::<'a>(m));
    assert(d.skip(m) =~= a.skip(k));
    assert(all_normal(a.skip(k)));
}

// normalising twice is normalising once
pub broadcast proof fn lemma_abs_idempotent(c: Seq<Comp>)
    requires is_canonical(c)
    ensures #[trigger] abs_of(c) == Some(c)
{
    broadcast use axiom_cwd_rooted;
    assert(join_comps(spec_cwd(), c) == c);
    lemma_prefix_is_fold(c, c.len() as int);
    assert(c.take(c.len() as int) =~= c);
    let e = Some(Seq::<Comp>::empty());
    assert(c =~= seq![c[0]] + c.skip(1));
    lemma_fold_concat(e, seq![c[0]], c.skip(1));
    let em = Seq::<Comp>::empty();
    assert(seq![c[0]] =~= em.push(c[0]));
    lemma_fold_push(e, em, c[0]);
    assert(norm_fold(e, em) == e);
    assert(norm_step(e, c[0]) == Some(em.push(c[0])));
    assert(all_normal(c.skip(1)));
    lemma_fold_normals(seq![c[0]], c.skip(1));
}


} // verus!
