// ---- trusted std contracts: Option / Result / misc ----
verus! {

pub assume_specification<T>[ Option::<T>::or ](a: Option<T>, b: Option<T>) -> (r: Option<T>)
    ensures r == (if a is Some { a } else { b });

// core's reflexive `impl<T> From<T> for T` is the identity (needed for the desugared `?`, rewrite R14)
pub broadcast axiom fn axiom_from_reflexive_obeys<T>()
    ensures #[trigger] <T as vstd::std_specs::convert::FromSpec<T>>::obeys_from_spec();
pub broadcast axiom fn axiom_from_reflexive_value<T>(v: T)
    ensures #[trigger] <T as vstd::std_specs::convert::FromSpec<T>>::from_spec(v) == v;
pub broadcast group axiom_from_reflexive { axiom_from_reflexive_obeys, axiom_from_reflexive_value }

/// UTF-8 encoding / decoding as (uninterpreted) functions of the character / byte sequence
pub uninterp spec fn utf8(s: Seq<char>) -> Seq<u8>;
pub uninterp spec fn utf8_decode(b: Seq<u8>) -> Seq<char>;
pub assume_specification[ String::as_bytes ](s: &String) -> (r: &[u8])
    ensures r@ == utf8(s@);

pub assume_specification[ String::with_capacity ](n: usize) -> (r: String)
    ensures r@ == Seq::<char>::empty();

// blanket `impl<T: Clone> ToOwned for T`: to_owned is clone
pub assume_specification<T: Clone>[ <T as std::borrow::ToOwned>::to_owned ](t: &T) -> (r: T)
    ensures call_ensures(T::clone, (t,), r);

} // verus!
