// ---- trusted std contracts: Option / Result / misc ----
verus! {

pub assume_specification<T>[ Option::<T>::or ](a: Option<T>, b: Option<T>) -> (r: Option<T>)
    ensures r == (if a is Some { a } else { b });

} // verus!
