// ---- trusted std contracts: std::fs / std::io. Every call may fail (result unconstrained): all fault positions at once ----
verus! {

#[verifier::external_type_specification]
#[verifier::external_body]
pub struct ExFile(std::fs::File);
#[verifier::external_type_specification]
#[verifier::external_body]
pub struct ExMetadata(std::fs::Metadata);
#[verifier::external_type_specification]
pub struct ExSeekFrom(std::io::SeekFrom);

pub assume_specification<P: AsRef<std::path::Path>>[ std::fs::File::create::<P> ](path: P) -> (r: std::io::Result<std::fs::File>);
pub assume_specification[ std::fs::File::sync_all ](f: &std::fs::File) -> (r: std::io::Result<()>);
pub assume_specification[ std::fs::File::metadata ](f: &std::fs::File) -> (r: std::io::Result<std::fs::Metadata>);
pub assume_specification[ std::fs::Metadata::len ](m: &std::fs::Metadata) -> (r: u64);
pub assume_specification[ <std::fs::File as std::io::Seek>::seek ](f: &mut std::fs::File, pos: std::io::SeekFrom) -> (r: std::io::Result<u64>);
pub assume_specification<P: AsRef<std::path::Path>>[ std::fs::create_dir_all::<P> ](path: P) -> (r: std::io::Result<()>);

// shims for provided trait methods (Write::write_all, Read::read_to_string) and the OpenOptions builder chain
#[verifier::external_body]
pub fn vx_write_all(f: &mut std::fs::File, buf: &[u8]) -> (r: std::io::Result<()>)
{ use std::io::Write; f.write_all(buf) }
#[verifier::external_body]
pub fn vx_read_to_string(f: &mut std::fs::File, buf: &mut String) -> (r: std::io::Result<usize>)
{ use std::io::Read; f.read_to_string(buf) }
#[verifier::external_body]
pub fn vx_open_read_write(path: &std::path::PathBuf) -> (r: std::io::Result<std::fs::File>)
{ std::fs::OpenOptions::new().read(true).write(true).open(path) }

} // verus!
