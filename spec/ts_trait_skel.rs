// ---- R9 skeleton of `trait TS`: declarations of exactly the items the lifted bodies call ----
// `output_path` and `ident` are what the derive generates per type; they are assumed to be pure functions of the type
// (spec_output_path / spec_ident), which is what "the path a type reports" presupposes.
verus! {

pub trait TS {
    spec fn spec_ident() -> Seq<char>;
    spec fn spec_output_path() -> Option<std::path::PathBuf>;
    spec fn spec_decl() -> Seq<char>;
    spec fn spec_name() -> Seq<char>;
    fn ident() -> (r: String)
        ensures r@ == Self::spec_ident();
    fn output_path() -> (r: Option<std::path::PathBuf>)
        ensures r == Self::spec_output_path();
    fn decl() -> (r: String)
        ensures r@ == Self::spec_decl();
    fn name() -> (r: String)
        ensures r@ == Self::spec_name();
    type WithoutGenerics: ?Sized;
    const DOCS: Option<&'static str>;
}

} // verus!
