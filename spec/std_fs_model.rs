// ---- trusted std contracts, second layer: WHAT the file calls do to the disk (used by the registry unit) ----
// The disk is ghost state threaded through the lifted function as an explicit tracked parameter (rewrite R6, like the
// registry): `fs.disk` maps a path to the bytes stored there. A handle knows its path and its cursor. Every call may fail;
// a failing call leaves the disk unconstrained at that path only.
verus! {

pub tracked struct FsToken { pub ghost disk: Map<PathBuf, Seq<u8>> }

pub uninterp spec fn file_path(f: std::fs::File) -> PathBuf;
pub uninterp spec fn file_pos(f: std::fs::File) -> nat;

pub broadcast axiom fn axiom_spec_bytes_is_utf8(s: &str)
    ensures #[trigger] vstd::string::StringSliceAdditionalSpecFns::spec_bytes(s) == utf8(s@);

/// write(2) at the cursor: bytes under the written range are replaced, bytes after it stay
pub open spec fn overwrite(old: Seq<u8>, pos: nat, buf: Seq<u8>) -> Seq<u8> {
    old.take(pos as int) + buf + (if pos + buf.len() <= old.len() { old.skip((pos + buf.len()) as int) } else { Seq::<u8>::empty() })
}

pub open spec fn same_elsewhere(a: Map<PathBuf, Seq<u8>>, b: Map<PathBuf, Seq<u8>>, p: PathBuf) -> bool {
    a.remove(p) == b.remove(p)
}

pub broadcast proof fn lemma_overwrite_empty(buf: Seq<u8>)
    ensures #[trigger] overwrite(Seq::<u8>::empty(), 0, buf) == buf,
{
    assert(overwrite(Seq::<u8>::empty(), 0, buf) =~= buf);
}

// File::create: O_CREAT | O_TRUNC
#[verifier::external_body]
pub fn vx_create(Tracked(fs): Tracked<&mut FsToken>, path: &PathBuf) -> (r: std::io::Result<std::fs::File>)
    ensures
        same_elsewhere(old(fs).disk, final(fs).disk, *path),
        r is Ok ==> final(fs).disk.contains_key(*path) && final(fs).disk[*path] == Seq::<u8>::empty()
            && file_path(r->Ok_0) == *path && file_pos(r->Ok_0) == 0,
{ std::fs::File::create(path) }

// OpenOptions::new().read(true).write(true).open(path): neither creates nor truncates
#[verifier::external_body]
pub fn vx_open_read_write_fs(Tracked(fs): Tracked<&mut FsToken>, path: &PathBuf) -> (r: std::io::Result<std::fs::File>)
    ensures
        final(fs).disk == old(fs).disk,
        r is Ok ==> old(fs).disk.contains_key(*path) && file_path(r->Ok_0) == *path && file_pos(r->Ok_0) == 0,
{ std::fs::OpenOptions::new().read(true).write(true).open(path) }

#[verifier::external_body]
pub fn vx_write_all_fs(Tracked(fs): Tracked<&mut FsToken>, f: &mut std::fs::File, buf: &[u8]) -> (r: std::io::Result<()>)
    ensures
        file_path(*final(f)) == file_path(*old(f)),
        same_elsewhere(old(fs).disk, final(fs).disk, file_path(*old(f))),
        r is Ok && old(fs).disk.contains_key(file_path(*old(f))) && file_pos(*old(f)) <= old(fs).disk[file_path(*old(f))].len() ==>
            final(fs).disk.contains_key(file_path(*old(f)))
            && final(fs).disk[file_path(*old(f))] == overwrite(old(fs).disk[file_path(*old(f))], file_pos(*old(f)), buf@)
            && file_pos(*final(f)) == file_pos(*old(f)) + buf@.len(),
{ use std::io::Write; f.write_all(buf) }

#[verifier::external_body]
pub fn vx_read_to_string_fs(Tracked(fs): Tracked<&mut FsToken>, f: &mut std::fs::File, buf: &mut String) -> (r: std::io::Result<usize>)
    ensures
        final(fs).disk == old(fs).disk,
        file_path(*final(f)) == file_path(*old(f)),
        r is Ok && old(fs).disk.contains_key(file_path(*old(f))) && file_pos(*old(f)) <= old(fs).disk[file_path(*old(f))].len() ==>
            final(buf)@ == old(buf)@ + utf8_decode(old(fs).disk[file_path(*old(f))].skip(file_pos(*old(f)) as int))
            && file_pos(*final(f)) == old(fs).disk[file_path(*old(f))].len(),
{ use std::io::Read; f.read_to_string(buf) }

#[verifier::external_body]
pub fn vx_seek_start(f: &mut std::fs::File, n: u64) -> (r: std::io::Result<u64>)
    ensures
        file_path(*final(f)) == file_path(*old(f)),
        r is Ok ==> file_pos(*final(f)) == n as nat,
{ use std::io::Seek; f.seek(std::io::SeekFrom::Start(n)) }

} // verus!
