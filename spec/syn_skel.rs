// ---- R4 skeletons: opaque stand-ins for syn / proc_macro2 items the lifted attribute logic mentions ----
// Bodies under proof never inspect these values; only the shapes they match on are transparent.
verus! {

pub mod proc_macro2 {
    use vstd::prelude::*;
    verus! {
    #[verifier::external_body] pub struct Span { _p: u8 }
    impl Span {
        #[verifier::external_body] pub fn call_site() -> Span { unimplemented!() }
    }
    #[verifier::external_body] #[derive(PartialEq, Eq, Hash)] pub struct Ident { _p: u8 }
    #[verifier::external_body] pub struct TokenStream { _p: u8 }
    impl core::fmt::Display for Ident { #[verifier::external_body] fn fmt(&self, _f: &mut core::fmt::Formatter<'_>) -> core::fmt::Result { Ok(()) } }
    }
}

pub mod syn {
    use vstd::prelude::*;
    verus! {
    #[verifier::external_body] pub struct Error { _p: u8 }
    pub type Result<T> = core::result::Result<T, Error>;
    impl Error {
        #[verifier::external_body] pub fn new<T>(span: super::proc_macro2::Span, message: T) -> Error { unimplemented!() }
        #[verifier::external_body] pub fn new_spanned<T, U>(tokens: T, message: U) -> Error { unimplemented!() }
    }
    #[verifier::external_body] #[derive(PartialEq, Eq, Hash)] pub struct Type { _p: u8 }
    #[verifier::external_body] pub struct Expr { _p: u8 }
    #[verifier::external_body] #[derive(PartialEq, Eq, Hash)] pub struct Path { _p: u8 }
    #[verifier::external_body] pub struct WherePredicate { _p: u8 }
    pub struct ItemEnum { pub attrs: Vec<Attribute>, pub variants: Punctuated<Variant> }
    #[verifier::external_body] pub struct ItemStruct { _p: u8 }
    #[verifier::external_body] pub struct Attribute { _p: u8 }
    // Punctuated<T, P>: only its length is visible
    #[verifier::external_body] #[verifier::reject_recursive_types(T)] pub struct Punctuated<T> { _p: core::marker::PhantomData<T> }
    impl<T> Punctuated<T> {
        pub uninterp spec fn spec_len(&self) -> nat;
        #[verifier::external_body] pub fn len(&self) -> (r: usize) ensures r == self.spec_len() { unimplemented!() }
        #[verifier::external_body] pub fn is_empty(&self) -> (r: bool) ensures r == (self.spec_len() == 0) { unimplemented!() }
    }
    pub struct FieldsNamed { pub named: Punctuated<Field> }
    pub struct FieldsUnnamed { pub unnamed: Punctuated<Field> }
    pub use super::proc_macro2::Ident;
    pub enum Fields { Named(FieldsNamed), Unnamed(FieldsUnnamed), Unit }
    pub struct Field { pub ident: Option<Ident>, pub ty: Type }
    pub struct Variant { pub fields: Fields }
    }
    impl Clone for Type { #[verifier::external_body] fn clone(&self) -> Self { unimplemented!() } }
    impl Clone for Expr { #[verifier::external_body] fn clone(&self) -> (r: Self) ensures r == *self { unimplemented!() } }
    impl Clone for Path { #[verifier::external_body] fn clone(&self) -> Self { unimplemented!() } }
    impl Clone for WherePredicate { #[verifier::external_body] fn clone(&self) -> Self { unimplemented!() } }
    impl core::fmt::Debug for Error { #[verifier::external_body] fn fmt(&self, _f: &mut core::fmt::Formatter<'_>) -> core::fmt::Result { Ok(()) } }
}

// `format!` inside the lifted syn_err! macros: the message text is irrelevant to every contract.
#[verifier::external_body] pub struct VxMessage { _p: u8 }
#[verifier::external_body] pub fn vx_format() -> VxMessage { unimplemented!() }

} // verus!
