// ---- R4 skeletons: opaque stand-ins for syn / proc_macro2 items the lifted attribute logic mentions ----
// Bodies under proof never inspect these values; only the shapes they match on are transparent.
verus! {

pub mod proc_macro2 {
    use vstd::prelude::*;
    verus! {
    #[verifier::external_body] pub struct Span { _p: u8 }
    impl Span {
        #[verifier::external_body] pub fn call_site() -> Span { unimplemented!() }
    }
    #[verifier::external_body] #[derive(PartialEq, Eq, Hash)] pub struct Ident { _p: u8 }
    #[verifier::external_body] pub struct TokenStream { _p: u8 }
    impl core::fmt::Display for Ident { #[verifier::external_body] fn fmt(&self, _f: &mut core::fmt::Formatter<'_>) -> core::fmt::Result { Ok(()) } }
    }
}

pub mod syn {
    use vstd::prelude::*;
    verus! {
    #[verifier::external_body] pub struct Error { _p: u8 }
    pub type Result<T> = core::result::Result<T, Error>;
    impl Error {
        #[verifier::external_body] pub fn new<T>(span: super::proc_macro2::Span, message: T) -> Error { unimplemented!() }
        #[verifier::external_body] pub fn new_spanned<T, U>(tokens: T, message: U) -> Error { unimplemented!() }
    }
    #[verifier::external_body] #[derive(PartialEq, Eq, Hash)] pub struct Type { _p: u8 }
    #[verifier::external_body] pub struct Expr { _p: u8 }
    #[verifier::external_body] #[derive(PartialEq, Eq, Hash)] pub struct Path { _p: u8 }
    #[verifier::external_body] pub struct WherePredicate { _p: u8 }
    #[verifier::external_body] pub struct ItemEnum { _p: u8 }
    #[verifier::external_body] pub struct Attribute { _p: u8 }
    #[verifier::external_body] pub struct FieldsNamed { _p: u8 }
    #[verifier::external_body] pub struct FieldsUnnamed { _p: u8 }
    pub use super::proc_macro2::Ident;
    pub enum Fields { Named(FieldsNamed), Unnamed(FieldsUnnamed), Unit }
    pub struct Field { pub ident: Option<Ident> }
    pub struct Variant { pub fields: Fields }
    }
    impl Clone for Type { #[verifier::external_body] fn clone(&self) -> Self { unimplemented!() } }
    impl Clone for Expr { #[verifier::external_body] fn clone(&self) -> Self { unimplemented!() } }
    impl Clone for Path { #[verifier::external_body] fn clone(&self) -> Self { unimplemented!() } }
    impl Clone for WherePredicate { #[verifier::external_body] fn clone(&self) -> Self { unimplemented!() } }
    impl core::fmt::Debug for Error { #[verifier::external_body] fn fmt(&self, _f: &mut core::fmt::Formatter<'_>) -> core::fmt::Result { Ok(()) } }
}

// `format!` inside the lifted syn_err! macros: the message text is irrelevant to every contract.
#[verifier::external_body] pub struct VxMessage { _p: u8 }
#[verifier::external_body] pub fn vx_format() -> VxMessage { unimplemented!() }

} // verus!
