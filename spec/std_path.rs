// ---- trusted std contracts: std::path (assumed, never proved; listed in evidence) ----
// A path is viewed as the sequence of its std::path::Component values (`path_comps`).
verus! {

#[verifier::external_type_specification]
#[verifier::external_body]
pub struct ExPath(std::path::Path);
#[verifier::external_type_specification]
#[verifier::external_body]
pub struct ExPathBuf(std::path::PathBuf);
#[verifier::external_type_specification]
#[verifier::external_body]
pub struct ExOsStr(std::ffi::OsStr);
#[verifier::external_type_specification]
#[verifier::external_body]
pub struct ExPrefixComponent<'a>(std::path::PrefixComponent<'a>);
#[verifier::external_type_specification]
pub struct ExComponent<'a>(std::path::Component<'a>);
#[verifier::external_type_specification]
#[verifier::external_body]
pub struct ExComponents<'a>(std::path::Components<'a>);
#[verifier::external_type_specification]
#[verifier::external_body]
pub struct ExIoError(std::io::Error);

pub type Comp<'a> = std::path::Component<'a>;

pub uninterp spec fn path_comps<'a>(p: &'a std::path::Path) -> Seq<Comp<'a>>;
pub uninterp spec fn pb_comps<'a>(p: &'a std::path::PathBuf) -> Seq<Comp<'a>>;

pub assume_specification<'a>[ std::path::Path::components ](p: &'a std::path::Path) -> (it: std::path::Components<'a>)
    ensures it.remaining() == path_comps(p), it.obeys_prophetic_iter_laws(), it.decrease() is Some;

pub assume_specification<'a>[ <std::path::PathBuf as core::ops::Deref>::deref ](p: &'a std::path::PathBuf) -> (r: &'a std::path::Path)
    ensures path_comps(r) == pb_comps(p), path_text_is_rendering(r) == pb_text_is_rendering(p);

// ---- component-sequence vocabulary -------------------------------------------------------------
pub open spec fn is_rooted(s: Seq<Comp>) -> bool { s.len() > 0 && (s[0] is RootDir || s[0] is Prefix) }
pub open spec fn is_clean(s: Seq<Comp>) -> bool {
    forall|k: int| 0 <= k < s.len() ==> !(#[trigger] s[k] is CurDir) && !(s[k] is ParentDir)
}

} // verus!
verus! {

// ---- AsRef<T> with a spec-level value ------------------------------------------------------------
#[verifier::external_trait_specification]
#[verifier::external_trait_extension(AsRefSpec via AsRefSpecImpl)]
pub trait ExAsRef<T: core::marker::PointeeSized>: core::marker::PointeeSized {
    type ExternalTraitSpecificationFor: core::convert::AsRef<T>;
    spec fn as_ref_spec(&self) -> &T;
    fn as_ref(&self) -> (r: &T)
        ensures r == self.as_ref_spec();
}

// AsRef<Path> impls of std used by ts-rs: the identity on Path / &Path / PathBuf
pub broadcast axiom fn axiom_asref_path(p: &std::path::Path)
    ensures #[trigger] <std::path::Path as AsRefSpec<std::path::Path>>::as_ref_spec(p) == p;
pub broadcast axiom fn axiom_asref_path_ref<'a>(p: &'a std::path::Path)
    ensures #[trigger] <&'a std::path::Path as AsRefSpec<std::path::Path>>::as_ref_spec(&p) == p;
pub broadcast axiom fn axiom_asref_pathbuf(p: &std::path::PathBuf)
    ensures path_comps(#[trigger] <std::path::PathBuf as AsRefSpec<std::path::Path>>::as_ref_spec(p)) == pb_comps(p);
pub broadcast axiom fn axiom_asref_pathbuf_ref<'a>(p: &'a std::path::PathBuf)
    ensures path_comps(#[trigger] <&'a std::path::PathBuf as AsRefSpec<std::path::Path>>::as_ref_spec(&p)) == pb_comps(p);
pub broadcast group group_asref_path { axiom_asref_path, axiom_asref_path_ref, axiom_asref_pathbuf, axiom_asref_pathbuf_ref }

// ---- unix path facts (target of this sandbox; cfg!(target_os = "windows") is false) ---------------
// components(): RootDir only in front, no Prefix, CurDir only in front of a relative path.
pub open spec fn unix_comps(s: Seq<Comp>) -> bool {
    &&& forall|k: int| 0 <= k < s.len() ==> !(#[trigger] s[k] is Prefix)
    &&& forall|k: int| 1 <= k < s.len() ==> !(#[trigger] s[k] is RootDir) && !(s[k] is CurDir)
}
pub broadcast axiom fn axiom_path_comps_unix(p: &std::path::Path)
    ensures unix_comps(#[trigger] path_comps(p));
pub broadcast axiom fn axiom_pb_comps_unix(p: &std::path::PathBuf)
    ensures unix_comps(#[trigger] pb_comps(p));

// the process' working directory: one fixed absolute path (context assumption: it is not changed while exporting)
pub uninterp spec fn spec_cwd() -> Seq<Comp<'static>>;
pub broadcast axiom fn axiom_cwd_rooted()
    ensures #[trigger] spec_cwd().len() > 0, spec_cwd()[0] is RootDir, unix_comps(spec_cwd());
pub assume_specification[ std::env::current_dir ]() -> (r: std::io::Result<std::path::PathBuf>)
    ensures r is Ok ==> pb_comps(&r->Ok_0) == spec_cwd();

// Path::join: an absolute argument replaces the base; a relative one is appended (a leading `.` of the argument is not a
// component of the result unless the base is empty)
pub open spec fn join_comps<'a>(a: Seq<Comp<'a>>, b: Seq<Comp<'a>>) -> Seq<Comp<'a>> {
    if b.len() > 0 && b[0] is RootDir { b }
    else if a.len() == 0 { b }
    else if b.len() > 0 && b[0] is CurDir { a + b.drop_first() }
    else { a + b }
}
pub assume_specification<P: AsRef<std::path::Path>>[ std::path::Path::join ](a: &std::path::Path, b: P) -> (r: std::path::PathBuf)
    ensures pb_comps(&r) == join_comps(path_comps(a), path_comps(b.as_ref_spec()));

// shim for `PathBuf::from(<&str>)` (its impl signature has an anonymous early-bound lifetime assume_specification cannot name)
#[verifier::external_body]
pub fn vx_pathbuf_from(s: &str) -> (r: std::path::PathBuf)
{ std::path::PathBuf::from(s) }

// shim (R13) for `<slice::Iter<Component>>.collect::<PathBuf>()`: a root followed by normal components collects
// to the path with exactly these components
#[verifier::external_body]
pub fn vx_collect_pathbuf<'a, 'b>(it: core::slice::Iter<'b, Comp<'a>>) -> (r: std::path::PathBuf)
    ensures pb_comps(&r) == it.remaining().map_values(|c: &Comp<'a>| *c)
{ it.collect() }

pub assume_specification<'a>[ <std::path::Component<'a> as core::cmp::PartialEq>::eq ](a: &Comp<'a>, b: &Comp<'a>) -> (r: bool)
    ensures r == (*a == *b);

// shim for `v.extend(it.by_ref())` (by_ref is a provided Iterator method, which assume_specification cannot reach)
#[verifier::external_body]
pub fn vx_extend_rest<'a>(v: &mut Vec<Comp<'a>>, it: &mut std::path::Components<'a>)
    requires (*old(it)).obeys_prophetic_iter_laws()
    ensures
        (*final(v))@ == (*old(v))@ + (*old(it)).remaining(),
        (*final(it)).remaining().len() == 0,
        (*final(it)).obeys_prophetic_iter_laws(),
{ v.extend(it.by_ref()) }

// shim for `comps.iter().map(|c| c.as_os_str()).collect::<PathBuf>()`; trusted: for `..`s followed by normal
// components the collected path has exactly these components
#[verifier::external_body]
pub fn vx_comps_to_pathbuf<'a>(comps: &Vec<Comp<'a>>) -> (r: std::path::PathBuf)
    ensures comps_roundtrip(comps@) ==> pb_comps(&r) == comps@ && pb_text_is_rendering(&r)
{ comps.iter().map(|c| c.as_os_str()).collect() }
pub open spec fn comps_roundtrip(s: Seq<Comp>) -> bool {
    forall|k: int| 0 <= k < s.len() ==> (#[trigger] s[k] is Normal || s[k] is ParentDir)
}

pub assume_specification[ <std::path::Path as std::borrow::ToOwned>::to_owned ](p: &std::path::Path) -> (r: std::path::PathBuf)
    ensures pb_comps(&r) == path_comps(p);
pub assume_specification[ std::path::Path::to_path_buf ](p: &std::path::Path) -> (r: std::path::PathBuf)
    ensures pb_comps(&r) == path_comps(p);
pub assume_specification[ <std::path::PathBuf as Clone>::clone ](p: &std::path::PathBuf) -> (r: std::path::PathBuf)
    ensures r == *p;

// ---- Path::parent ----
pub open spec fn parent_comps<'a>(s: Seq<Comp<'a>>) -> Option<Seq<Comp<'a>>> {
    if s.len() == 0 || s.last() is RootDir || s.last() is Prefix { None } else { Some(s.drop_last()) }
}
pub assume_specification<'a>[ std::path::Path::parent ](p: &'a std::path::Path) -> (r: Option<&'a std::path::Path>)
    ensures
        (r is Some) == (parent_comps(path_comps(p)) is Some),
        r is Some ==> path_comps(r->0) == parent_comps(path_comps(p))->0;

// ---- rendering of a relative path (`..`s and normal components) as text: components joined by `/` (unix) ----
pub uninterp spec fn os_lossy<'a>(c: Comp<'a>) -> Seq<char>;   // text of a Normal component (to_string_lossy of its OsStr)
pub broadcast axiom fn axiom_os_lossy_nonempty<'a>(c: Comp<'a>)
    requires c is Normal
    ensures (#[trigger] os_lossy(c)).len() > 0;
pub open spec fn comp_str<'a>(c: Comp<'a>) -> Seq<char> {
    match c { Comp::ParentDir => ".."@, Comp::CurDir => "."@, Comp::Normal(_) => os_lossy(c), _ => "/"@ }
}
pub open spec fn render_rel<'a>(s: Seq<Comp<'a>>) -> Seq<char>
    decreases s.len()
{
    if s.len() == 0 { Seq::<char>::empty() }
    else if s.len() == 1 { comp_str(s[0]) }
    else { comp_str(s[0]) + "/"@ + render_rel(s.drop_first()) }
}
pub uninterp spec fn cow_str_view<'a>(c: std::borrow::Cow<'a, str>) -> Seq<char>;
// the text of a path is the `/`-joined rendering of its components only if the path was BUILT from components (collect);
// an arbitrary path keeps its original spelling (`a/./b`), found by the conformance smoke test of this contract
pub uninterp spec fn path_text_is_rendering(p: &std::path::Path) -> bool;
pub uninterp spec fn pb_text_is_rendering(p: &std::path::PathBuf) -> bool;
pub assume_specification<'a>[ std::path::Path::to_string_lossy ](p: &'a std::path::Path) -> (r: std::borrow::Cow<'a, str>)
    ensures path_text_is_rendering(p) && comps_roundtrip(path_comps(p)) ==> cow_str_view(r) == render_rel(path_comps(p));
pub broadcast axiom fn axiom_display_cow<'a>(c: &std::borrow::Cow<'a, str>)
    ensures #[trigger] display_view::<std::borrow::Cow<'a, str>>(c) == cow_str_view(*c);
pub broadcast axiom fn axiom_string_from_cow_obeys<'a>()
    ensures #[trigger] <String as vstd::std_specs::convert::FromSpec<std::borrow::Cow<'a, str>>>::obeys_from_spec();
pub broadcast axiom fn axiom_string_from_cow<'a>(c: std::borrow::Cow<'a, str>)
    ensures (#[trigger] <String as vstd::std_specs::convert::FromSpec<std::borrow::Cow<'a, str>>>::from_spec(c))@ == cow_str_view(c);
pub broadcast group group_cow_str { axiom_display_cow, axiom_string_from_cow_obeys, axiom_string_from_cow }

} // verus!
