// ---- eager shims for provided Iterator adapters over finite iterators (filter / flat_map into Option / map_while / fold) ----
// The adapter is applied and collected at once; iterating the result is iterating the adapter (R13). Closures must be
// deterministic relations (their annotated `ensures` fixes the result), which the `requires` state.
verus! {

// the elements of s whose flag is set, in order
pub open spec fn select<T>(s: Seq<T>, flags: Seq<bool>) -> Seq<T>
    decreases s.len()
{
    if s.len() == 0 || flags.len() != s.len() { Seq::<T>::empty() }
    else { let rest = select(s.drop_last(), flags.drop_last()); if flags.last() { rest.push(s.last()) } else { rest } }
}
// filter: the closure was asked once per element (its answers are `flags`), the elements it accepted are kept
#[verifier::external_body]
pub fn vx_iter_filter<I: Iterator, P: FnMut(&I::Item) -> bool>(it: I, p: P) -> (r: std::vec::IntoIter<I::Item>)
    requires forall|x: I::Item| call_requires(p, (&x,))
    ensures
        it.obeys_prophetic_iter_laws() ==> exists|flags: Seq<bool>| #![trigger select(it.remaining(), flags)]
            flags.len() == it.remaining().len()
            && (forall|k: int| 0 <= k < flags.len() ==> call_ensures(p, (&#[trigger] it.remaining()[k],), flags[k]))
            && r.remaining() == select(it.remaining(), flags),
        r.obeys_prophetic_iter_laws(), r.decrease() is Some,
{ it.filter(p).collect::<Vec<_>>().into_iter() }

// the payloads of the Some entries, in order
pub open spec fn somes<B>(o: Seq<Option<B>>) -> Seq<B>
    decreases o.len()
{
    if o.len() == 0 { Seq::<B>::empty() }
    else { let rest = somes(o.drop_last()); match o.last() { Some(b) => rest.push(b), None => rest } }
}
// flat_map into Option: the closure was asked once per element (its answers are `outs`)
#[verifier::external_body]
pub fn vx_iter_flat_map<I: Iterator, B, F: FnMut(I::Item) -> Option<B>>(it: I, f: F) -> (r: std::vec::IntoIter<B>)
    requires forall|x: I::Item| call_requires(f, (x,))
    ensures
        it.obeys_prophetic_iter_laws() ==> exists|outs: Seq<Option<B>>| #![trigger somes(outs)]
            outs.len() == it.remaining().len()
            && (forall|k: int| 0 <= k < outs.len() ==> call_ensures(f, (#[trigger] it.remaining()[k],), outs[k]))
            && r.remaining() == somes(outs),
        r.obeys_prophetic_iter_laws(), r.decrease() is Some,
{ it.flat_map(f).collect::<Vec<_>>().into_iter() }

// map_while: asked element by element until the first None; only the answers before it are kept
pub open spec fn somes_until_none<B>(o: Seq<Option<B>>) -> Seq<B>
    decreases o.len()
{
    if o.len() == 0 { Seq::<B>::empty() }
    else { match o[0] { Some(b) => seq![b] + somes_until_none(o.drop_first()), None => Seq::<B>::empty() } }
}
#[verifier::external_body]
pub fn vx_iter_map_while<I: Iterator, B, F: FnMut(I::Item) -> Option<B>>(it: I, f: F) -> (r: std::vec::IntoIter<B>)
    requires forall|x: I::Item| call_requires(f, (x,))
    ensures
        it.obeys_prophetic_iter_laws() ==> exists|outs: Seq<Option<B>>| #![trigger somes_until_none(outs)]
            outs.len() == it.remaining().len()
            && (forall|k: int| 0 <= k < outs.len() ==> call_ensures(f, (#[trigger] it.remaining()[k],), outs[k]))
            && r.remaining() == somes_until_none(outs),
        r.obeys_prophetic_iter_laws(), r.decrease() is Some,
{ it.map_while(f).collect::<Vec<_>>().into_iter() }

// fold: the closure was applied once per element; `accs` are the accumulator values before each step and after the last
pub open spec fn fold_trace<T, B>(accs: Seq<B>, xs: Seq<T>, init: B, out: B) -> bool {
    accs.len() == xs.len() + 1 && accs[0] == init && accs.last() == out
}
#[verifier::external_body]
pub fn vx_iter_fold<I: Iterator, B, F: FnMut(B, I::Item) -> B>(it: I, init: B, f: F) -> (r: B)
    requires forall|a: B, x: I::Item| call_requires(f, (a, x))
    ensures it.obeys_prophetic_iter_laws() ==> exists|accs: Seq<B>| #![trigger fold_trace(accs, it.remaining(), init, r)]
        fold_trace(accs, it.remaining(), init, r)
        && (forall|k: int| 0 <= k < it.remaining().len() ==> call_ensures(f, (#[trigger] accs[k], it.remaining()[k]), accs[k + 1]))
{ it.fold(init, f) }

// map: asked once per element, answers kept in order
#[verifier::external_body]
pub fn vx_iter_map_eager<I: Iterator, B, F: FnMut(I::Item) -> B>(it: I, f: F) -> (r: std::vec::IntoIter<B>)
    requires forall|x: I::Item| call_requires(f, (x,))
    ensures
        it.obeys_prophetic_iter_laws() ==> r.remaining().len() == it.remaining().len()
            && (forall|k: int| 0 <= k < it.remaining().len() ==> call_ensures(f, (#[trigger] it.remaining()[k],), r.remaining()[k])),
        r.obeys_prophetic_iter_laws(), r.decrease() is Some,
{ it.map(f).collect::<Vec<_>>().into_iter() }

// collect::<Result<Vec<T>, E>>(): the first error, or all the values
pub open spec fn all_ok<T, E>(s: Seq<core::result::Result<T, E>>) -> bool { forall|k: int| 0 <= k < s.len() ==> #[trigger] s[k] is Ok }
pub open spec fn oks<T, E>(s: Seq<core::result::Result<T, E>>) -> Seq<T> { Seq::new(s.len(), |k: int| s[k]->Ok_0) }
#[verifier::external_body]
pub fn vx_collect_results<I: Iterator<Item = core::result::Result<T, E>>, T, E>(it: I) -> (r: core::result::Result<Vec<T>, E>)
    ensures
        it.obeys_prophetic_iter_laws() ==> ((r is Ok) == all_ok(it.remaining())),
        it.obeys_prophetic_iter_laws() && r is Ok ==> r->Ok_0@ == oks(it.remaining()),
{ it.collect() }

// a provided method without a usable contract (collect into an arbitrary FromIterator): result unconstrained. Applied on demand
// only; a run that needed it is a weakened run (a failure then needs a replayed counterexample)
#[verifier::external_body]
pub fn vx_collect_unconstrained<I: Iterator, B: core::iter::FromIterator<I::Item>>(it: I) -> (r: B)
{ it.collect() }


// collect::<BTreeMap<K, V>>() of (key, value) pairs: inserted in order, a later pair replaces an earlier one with the same key
pub open spec fn map_of_pairs<K, V>(s: Seq<(K, V)>, n: int) -> Map<K, V>
    decreases n
{
    if n <= 0 { Map::<K, V>::empty() } else { map_of_pairs(s, n - 1).insert(s[n - 1].0, s[n - 1].1) }
}
#[verifier::external_body]
pub fn vx_collect_btreemap<I: Iterator<Item = (K, V)>, K: Ord, V>(it: I) -> (r: std::collections::BTreeMap<K, V>)
    ensures
        it.obeys_prophetic_iter_laws() && vstd::std_specs::btree::key_obeys_cmp_spec::<K>() ==> r@ == map_of_pairs(it.remaining(), it.remaining().len() as int),
{ it.collect() }

} // verus!
