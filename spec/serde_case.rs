// ---- property-level spec: serde_derive's rename rules (internals/case.rs) over Seq<char> ----
// Validated on every run against serde_derive's own apply_to_field / apply_to_variant (unit serde_oracle).
verus! {

// result of the snake loop after the first n chars
pub open spec fn snake_prefix(s: Seq<char>, n: int) -> Seq<char>
    decreases n
{
    if n <= 0 { Seq::<char>::empty() }
    else {
        let c = s[n - 1];
        let p = snake_prefix(s, n - 1);
        if n - 1 > 0 && spec_is_uppercase(c) { p.push('_').push(ascii_lower(c)) } else { p.push(ascii_lower(c)) }
    }
}
pub open spec fn snake(s: Seq<char>) -> Seq<char> { snake_prefix(s, s.len() as int) }

// (output, capitalize-flag) of the pascal loop after the first n chars
pub open spec fn pascal_prefix(s: Seq<char>, n: int) -> (Seq<char>, bool)
    decreases n
{
    if n <= 0 { (Seq::<char>::empty(), true) }
    else {
        let c = s[n - 1];
        let (p, cap) = pascal_prefix(s, n - 1);
        if c == '_' { (p, true) } else if cap { (p.push(ascii_upper(c)), false) } else { (p.push(c), false) }
    }
}
pub open spec fn pascal(s: Seq<char>) -> Seq<char> { pascal_prefix(s, s.len() as int).0 }

// `x[..1].to_ascii_lowercase() + &x[1..]`: defined (does not panic) iff x is non-empty and its first char is one byte
pub open spec fn lower_first_defined(s: Seq<char>) -> bool { s.len() > 0 && is_ascii(s[0]) }
pub open spec fn lower_first(s: Seq<char>) -> Seq<char> {
    if s.len() == 0 { s } else { seq![ascii_lower(s[0])] + s.drop_first() }
}

pub enum Rule { Lower, Upper, Pascal, Camel, Snake, ScreamingSnake, Kebab, ScreamingKebab }

pub open spec fn dash() -> Seq<char> { "-"@ }

pub open spec fn serde_variant(r: Rule, s: Seq<char>) -> Seq<char> {
    match r {
        Rule::Pascal => s,
        Rule::Lower => seq_ascii_lower(s),
        Rule::Upper => seq_ascii_upper(s),
        Rule::Camel => lower_first(s),
        Rule::Snake => snake(s),
        Rule::ScreamingSnake => seq_ascii_upper(snake(s)),
        Rule::Kebab => spec_replace_char(snake(s), '_', dash()),
        Rule::ScreamingKebab => spec_replace_char(seq_ascii_upper(snake(s)), '_', dash()),
    }
}
// serde itself panics outside this domain (empty or multi-byte-first variant under camelCase)
pub open spec fn serde_variant_defined(r: Rule, s: Seq<char>) -> bool {
    r is Camel ==> lower_first_defined(s)
}

pub open spec fn serde_field(r: Rule, s: Seq<char>) -> Seq<char> {
    match r {
        Rule::Lower => s,
        Rule::Snake => s,
        Rule::Upper => seq_ascii_upper(s),
        Rule::Pascal => pascal(s),
        Rule::Camel => lower_first(pascal(s)),
        Rule::ScreamingSnake => seq_ascii_upper(s),
        Rule::Kebab => spec_replace_char(s, '_', dash()),
        Rule::ScreamingKebab => spec_replace_char(seq_ascii_upper(s), '_', dash()),
    }
}
pub open spec fn serde_field_defined(r: Rule, s: Seq<char>) -> bool {
    r is Camel ==> lower_first_defined(pascal(s))
}

} // verus!
